package checks

import (
	"testing"

	sdk "github.com/cosmos/cosmos-sdk/types"
	banktypes "github.com/cosmos/cosmos-sdk/x/bank/types"

	"verif/dump"
	"verif/world"
)

func TestTxModeSmoke(t *testing.T) {
	c := world.NewChain(world.Options{Seed: 3, NumAccs: 3})
	c.PrepareDefi()
	c.Fund(c.Accs[0].Addr, sdk.NewCoins(sdk.NewInt64Coin("ucmdx", 1000000)))
	c.NextBlock(5e9)
	a := dump.Take(c.App, c.Ctx)
	res, err := c.DeliverTx(c.Accs[0], banktypes.NewMsgSend(c.Accs[0].Addr, c.Accs[1].Addr, sdk.NewCoins(sdk.NewInt64Coin("ucmdx", 5))))
	if err != nil || res.Code != 0 {
		t.Fatalf("tx failed: %v %v", err, res.Log)
	}
	b := dump.Take(c.App, c.Ctx)
	d := dump.Diff(a, b)
	t.Logf("%d records, %d changed: %s", len(a), len(d), dump.Summary(d, 10))
	res, _ = c.DeliverTx(c.Accs[0], banktypes.NewMsgSend(c.Accs[0].Addr, c.Accs[1].Addr, sdk.NewCoins(sdk.NewInt64Coin("ucmdx", 5000000000))))
	t.Logf("failing tx code %d; diff after: %s", res.Code, dump.Summary(dump.Diff(b, dump.Take(c.App, c.Ctx)), 10))
}
