package checks

// C11 on the liquidation / auction machine: limit-bid deposits, withdrawals
// and cancellations (with attacker-chosen amount and denomination), the
// protocol total, and English-style bids.

import (
	"fmt"

	sdk "github.com/cosmos/cosmos-sdk/types"

	auctypes "github.com/comdex-official/comdex/x/auctionsV2/types"
	liqv2types "github.com/comdex-official/comdex/x/liquidationsV2/types"
)

func (m *vMachine) applyLimitBid(i int, op vOp) {
	c, cfg := m.c, &m.cs.Cfg
	p := m.product(op.P)
	from := c.Accs[op.U].Addr
	debt, coll := m.outAsset(p), m.inAsset(p)
	prem := sdk.NewInt(int64(op.Asset))
	before, had := c.App.NewaucKeeper.GetUserLimitBidData(c.Ctx, debt.ID, coll.ID, prem, from.String())
	dep := sdk.ZeroInt()
	if had {
		dep = before.DebtToken.Amount
	}
	// balances of every asset before, to see what (if anything) is paid out and in which denomination
	bal := map[string]sdk.Int{}
	for _, a := range cfg.Assets {
		bal[a.Denom] = c.Bal(from, a.Denom)
	}
	params, _ := c.App.NewaucKeeper.GetAuctionParams(c.Ctx)
	var msg sdk.Msg
	var asked sdk.Int
	denom := debt.Denom
	switch op.K {
	case "lbdep":
		asked = mustInt(op.A)
		msg = auctypes.NewMsgDepositLimitBid(from.String(), coll.ID, debt.ID, prem, sdk.NewCoin(debt.Denom, asked))
	case "lbcancel":
		msg = auctypes.NewMsgCancelLimitBid(from.String(), coll.ID, debt.ID, prem)
	case "lbwd":
		asked = mustInt(op.A)
		switch op.B {
		case "collateral":
			denom = coll.Denom
		case "other":
			for _, a := range cfg.Assets {
				if a.Denom != debt.Denom && a.Denom != coll.Denom {
					denom = a.Denom
				}
			}
		}
		msg = auctypes.NewMsgWithdrawLimitBid(from.String(), coll.ID, debt.ID, prem, sdk.NewCoin(denom, asked))
	}
	_, err := c.Deliver(msg)
	if err != nil {
		if debugErrs {
			e := err.Error()
			if len(e) > 50 {
				e = e[:50]
			}
			m.r.Class("err:" + op.K + ":" + e)
		}
		return
	}
	m.okKinds[op.K]++
	if op.K == "lbdep" {
		return
	}
	// what the bidder received, per denomination
	for _, a := range cfg.Assets {
		got := c.Bal(from, a.Denom).Sub(bal[a.Denom])
		if got.IsZero() {
			continue
		}
		ctx := op.K
		if a.Denom != debt.Denom {
			if m.prop == "C11" {
				m.fail("C11.limit-bid-payout-in-deposited-asset", ctx+",denom:"+op.B, "step %d: %s paid the bidder %s%s, the deposit is in %s", i, op.K, got, a.Denom, debt.Denom)
			}
			continue
		}
		if got.GT(dep) && m.prop == "C11" {
			m.fail("C11.limit-bid-payout-within-own-deposit", ctx, "step %d: %s paid the bidder %s, own outstanding deposit was %s", i, op.K, got, dep)
		}
		// fee
		var base sdk.Int
		fee := params.ClosingFee
		if op.K == "lbcancel" || (op.K == "lbwd" && asked.Equal(dep)) {
			base = dep
		} else {
			base, fee = asked, params.WithdrawalFee
		}
		feeAmt := fee.Mul(sdk.NewDecFromInt(base)).TruncateInt()
		if want := base.Sub(feeAmt); !got.Equal(want) && m.prop == "C11" && denom == debt.Denom {
			m.fail("C11.limit-bid-payout-equals-amount-less-fee", ctx, "step %d: %s of %s paid %s, amount less the stated fee is %s", i, op.K, base, got, want)
		}
		// the fee stays in auction custody (model-side bookkeeping for C10's custody identity)
		if _, ok := m.retained[debt.Denom]; !ok {
			m.retained[debt.Denom] = sdk.ZeroInt()
		}
		m.retained[debt.Denom] = m.retained[debt.Denom].Add(feeAmt)
		m.nLimitExit++
		if !asked.IsNil() && !asked.Equal(dep) {
			m.nLimitOdd++
		}
	}
}

func (m *vMachine) c11Invariants(i int, op vOp, post *liqSnap) {
	c := m.c
	for _, pd := range c.App.NewaucKeeper.GetAllLimitBidProtocolData(c.Ctx) {
		da := m.assetByID(pd.DebtAssetId)
		if da == nil {
			continue
		}
		sum := m.limitDeposits(pd.DebtAssetId, pd.CollateralAssetId)
		if !pd.BidValue.Equal(sum) {
			m.fail("C11.limit-bid-total-equals-deposits", "after:"+op.K, "step %d: recorded total of limit bids for (debt %d, collateral %d) is %s, individual deposits sum to %s", i, pd.DebtAssetId, pd.CollateralAssetId, pd.BidValue, sum)
		}
	}
	// custody backs all deposits of a denomination
	need := map[string]sdk.Int{}
	for _, pd := range c.App.NewaucKeeper.GetAllLimitBidProtocolData(c.Ctx) {
		if da := m.assetByID(pd.DebtAssetId); da != nil {
			if _, ok := need[da.Denom]; !ok {
				need[da.Denom] = sdk.ZeroInt()
			}
			need[da.Denom] = need[da.Denom].Add(m.limitDeposits(pd.DebtAssetId, pd.CollateralAssetId))
		}
	}
	for d, n := range need {
		if have := post.bal["auction/"+d]; have.LT(n) {
			m.fail("C11.limit-bid-deposits-held-in-custody", "after:"+op.K, "step %d: auction custody holds %s%s, limit-bid deposits need %s", i, have, d, n)
		}
	}
}

// englishBidAccepted: nothing to do for dutch-only worlds; English auctions of the
// surplus / debt kind are driven by the collector checks.
func (m *vMachine) englishBidAccepted(i int, op vOp, a auctypes.Auction, lv liqv2types.LockedVault) {
	m.r.Class(fmt.Sprintf("english-bid:%s", lv.InitiatorType))
}
