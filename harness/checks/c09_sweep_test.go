package checks

// C09, bounded liveness: with liquidation and dutch auctions enabled, prices
// active and frozen, every vault on the unsafe side is seized within two full
// sweeps of the vault list, for every batch size, also when other positions are
// created and closed between the blocks (which shifts list positions).

import (
	"encoding/json"
	"fmt"
	"math/big"
	"testing"

	sdk "github.com/cosmos/cosmos-sdk/types"
	"pgregory.net/rapid"

	"verif/rec"
)

type c09SweepCase struct {
	Cfg     vCfg    `json:"cfg"`
	Setup   []vOp   `json:"setup"`   // vault creations
	Crash   []vOp   `json:"crash"`   // price moves that make some vaults unsafe
	Between [][]vOp `json:"between"` // operations by other users between consecutive blocks
}

func c09SweepRun(t rec.TB, r *rec.Rec, cs *c09SweepCase) {
	r.Eval()
	vc := &vCase{Cfg: cs.Cfg}
	m := newVMachine(t, r, "C09", vc)
	step := 0
	do := func(op vOp) { vc.Ops = append(vc.Ops, op); m.apply(step, op); step++ }
	for _, op := range cs.Setup {
		do(op)
	}
	for _, op := range cs.Crash {
		do(op)
	}
	c := m.c
	// the unsafe set, judged exactly on the recorded total debt
	type target struct {
		id   uint64
		prod int
	}
	var unsafe []target
	open := c.App.VaultKeeper.GetVaults(c.Ctx)
	for _, v := range open {
		pi := m.productIdxByID(v.ExtendedPairVaultID)
		p := m.product(pi)
		if !m.liqEnabled(p) {
			continue
		}
		total := v.AmountOut.Add(v.InterestAccumulated).Add(v.ClosingFeeAccumulated)
		ratio := m.ratio(p, v.AmountIn, total)
		minCr := decRat(sdk.MustNewDecFromStr(p.MinCr))
		if ratio != nil && ratio.Cmp(new(big.Rat).Mul(minCr, big.NewRat(999999, 1000000))) < 0 {
			unsafe = append(unsafe, target{v.Id, pi})
		}
	}
	if len(unsafe) == 0 {
		r.Class("no-unsafe-vault")
		return
	}
	batch := int(cs.Cfg.Liq.Batch)
	maxLen := len(open)
	blocks := 0
	limit := func() int { return 2*((maxLen+batch-1)/batch) + 2 }
	for blocks < limit() {
		do(vOp{K: "block", Dt: 5})
		blocks++
		if blocks-1 < len(cs.Between) {
			for _, op := range cs.Between[blocks-1] {
				do(op)
			}
		}
		if n := len(c.App.VaultKeeper.GetVaults(c.Ctx)); n > maxLen {
			maxLen = n
		}
		left := 0
		for _, u := range unsafe {
			if _, still := c.App.VaultKeeper.GetVault(c.Ctx, u.id); still {
				left++
			}
		}
		if left == 0 {
			break
		}
	}
	for _, u := range unsafe {
		if v, still := c.App.VaultKeeper.GetVault(c.Ctx, u.id); still {
			r.Fail(t, "C09.unsafe-vault-seized-within-two-sweeps", fmt.Sprintf("batch=%d", batch), cs, "vault %d (collateral %s, debt %s) is still open after %d blocks; list length at most %d, batch size %d", u.id, v.AmountIn, v.AmountOut, blocks, maxLen, batch)
		}
	}
	r.ClassN("unsafe-vaults", len(unsafe))
	for _, v := range open {
		if !v.AmountOut.IsInt64() {
			r.Class("population-contains-debt-above-2^63-units")
			break
		}
	}
	for _, v := range open {
		if p := m.product(m.productIdxByID(v.ExtendedPairVaultID)); !m.cs.Cfg.Liq.Apps[p.App].Whitelisted || !m.cs.Cfg.Liq.Apps[p.App].Dutch {
			r.Class("population-contains-vault-of-disabled-app")
			break
		}
	}
	if len(open) > batch {
		r.Class("population-larger-than-batch")
		r.NonTrivial(cs)
	}
}

func TestC09_sweep(t *testing.T) {
	r := rec.New("C09", "sweep")
	t.Cleanup(r.Flush)
	rapid.Check(t, func(rt *rapid.T) {
		r.Guard(func() {
			cfg := genVCfg(rt, "C09", true)
			cfg.NUsers = rapid.IntRange(3, 8).Draw(rt, "sweepusers")
			cfg.Liq.Batch = uint64(rapid.SampledFrom([]int{1, 2, 3, 5}).Draw(rt, "sweepbatch"))
			// at least one app enabled; the others may be not white-listed or have dutch auctions off:
			// their vaults make the sweep's per-vault step fail, which must not stop the sweep
			en := rapid.IntRange(0, len(cfg.Liq.Apps)-1).Draw(rt, "enabledapp")
			for i := range cfg.Liq.Apps {
				switch {
				case i == en:
					cfg.Liq.Apps[i] = vLiqApp{Whitelisted: true, Dutch: true, English: true}
				default:
					k := rapid.IntRange(0, 2).Draw(rt, fmt.Sprintf("appmode%d", i))
					cfg.Liq.Apps[i] = vLiqApp{Whitelisted: k != 0, Dutch: k == 2, English: true}
				}
			}
			for i := range cfg.Products {
				cfg.Products[i].Stable = false
				if cfg.Products[i].Ceiling == "250000000" || cfg.Products[i].Ceiling == "3000000000" || cfg.Products[i].Ceiling == "5000000000" {
					cfg.Products[i].Ceiling = "100000000000000000"
				}
			}
			cs := &c09SweepCase{Cfg: cfg}
			// a throw-away machine computes state-relative amounts for the creations
			probe := newVMachine(rt, r, "C09probe", &vCase{Cfg: cfg})
			for u := 0; u < cfg.NUsers-1; u++ {
				for pi := range cfg.Products {
					if rapid.IntRange(0, 3).Draw(rt, fmt.Sprintf("mk%d_%d", u, pi)) == 0 {
						continue
					}
					p := probe.product(pi)
					floor := mustInt(p.Floor)
					out := floor.MulRaw(rapid.Int64Range(1, 5).Draw(rt, fmt.Sprintf("out%d_%d", u, pi)))
					// some vaults draw the same amount again after creation (a debt of 18-decimal tokens then passes 2^63 units)
					again := rapid.IntRange(0, 3).Draw(rt, fmt.Sprintf("again%d_%d", u, pi)) == 0
					in := probe.minCollateral(p, out)
					if again {
						in = probe.minCollateral(p, out.MulRaw(2))
					}
					switch rapid.IntRange(0, 2).Draw(rt, fmt.Sprintf("tight%d_%d", u, pi)) {
					case 0:
						in = in.AddRaw(1)
					case 1:
						in = in.MulRaw(11).QuoRaw(10)
					default:
						in = in.MulRaw(3)
					}
					cs.Setup = append(cs.Setup, vOp{K: "create", U: u, P: pi, A: in.String(), B: out.String()})
					if again {
						cs.Setup = append(cs.Setup, vOp{K: "draw", U: u, P: pi, A: out.String()})
					}
				}
			}
			for a := 0; a < cfg.NColl; a++ {
				if rapid.Bool().Draw(rt, fmt.Sprintf("crash%d", a)) || a == 0 {
					f := rapid.SampledFrom([]uint64{50, 80, 95}).Draw(rt, fmt.Sprintf("crashf%d", a))
					price := cfg.Assets[a].Price * f / 100
					if price == 0 {
						price = 1
					}
					cs.Crash = append(cs.Crash, vOp{K: "price", Asset: a, Price: price, Active: true})
				}
			}
			// interleaved operations by the last user: create and close its own (safe) vaults
			last := cfg.NUsers - 1
			nb := rapid.IntRange(0, 6).Draw(rt, "interleave")
			for b := 0; b < nb; b++ {
				var ops []vOp
				pi := rapid.IntRange(0, len(cfg.Products)-1).Draw(rt, fmt.Sprintf("ipi%d", b))
				if rapid.Bool().Draw(rt, fmt.Sprintf("iclose%d", b)) {
					ops = append(ops, vOp{K: "close", U: last, P: pi})
				} else {
					p := probe.product(pi)
					out := mustInt(p.Floor)
					ops = append(ops, vOp{K: "create", U: last, P: pi, A: probe.minCollateral(p, out).MulRaw(40).String(), B: out.String()})
				}
				cs.Between = append(cs.Between, ops)
			}
			c09SweepRun(rt, r, cs)
		})
	})
}

func init() {
	replayers["C09.sweep"] = func(t *testing.T, r *rec.Rec, raw json.RawMessage) {
		var cs c09SweepCase
		if err := json.Unmarshal(raw, &cs); err != nil {
			t.Fatal(err)
		}
		c09SweepRun(t, r, &cs)
	}
}
