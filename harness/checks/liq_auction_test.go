package checks

// Second-generation liquidation and auctions on the vault world machine:
// liquidation white-listing, sweep batch size, auction parameters, liquidate
// messages, dutch bids, external liquidations, app reserve funds and limit bids,
// with the oracles of C09 (safe and exact seizure), C10 (dutch auction ledger)
// and C11 (bidder funds), and the awaiting-settlement terms of C01.

import (
	"fmt"
	"math/big"
	"sort"
	"strings"
	"time"

	sdk "github.com/cosmos/cosmos-sdk/types"
	authtypes "github.com/cosmos/cosmos-sdk/x/auth/types"
	"pgregory.net/rapid"

	auctypes "github.com/comdex-official/comdex/x/auctionsV2/types"
	liqv2types "github.com/comdex-official/comdex/x/liquidationsV2/types"
	vaulttypes "github.com/comdex-official/comdex/x/vault/types"

	"verif/world"
)

type vLiqApp struct {
	Whitelisted bool `json:"whitelisted"`
	Dutch       bool `json:"dutch"`
	English     bool `json:"english"`
}

type vLiqCfg struct {
	Batch      uint64    `json:"batch_size"`
	Duration   uint64    `json:"auction_duration_seconds"`
	Premium    string    `json:"premium"`
	Discount   string    `json:"discount"`
	Incentive  string    `json:"keeper_incentive"`
	MinUsdLeft uint64    `json:"min_usd_value_left"`
	BidFactor  string    `json:"bid_factor"`
	WdFee      string    `json:"limit_withdrawal_fee"`
	ClFee      string    `json:"limit_closing_fee"`
	ExtPenalty string    `json:"external_liquidation_penalty"`
	ExtBonus   string    `json:"external_auction_bonus"`
	Apps       []vLiqApp `json:"apps"`
}

func auctionAddr() sdk.AccAddress { return authtypes.NewModuleAddress(auctypes.ModuleName) }
func liqv2Addr() sdk.AccAddress   { return authtypes.NewModuleAddress(liqv2types.ModuleName) }

func genVLiqCfg(rt *rapid.T, napps int) *vLiqCfg {
	l := &vLiqCfg{
		Batch:      uint64(rapid.SampledFrom([]int{1, 2, 3, 5, 200}).Draw(rt, "liqbatch")),
		Duration:   uint64(rapid.SampledFrom([]int{60, 3600, 18000}).Draw(rt, "aucduration")),
		Premium:    rapid.SampledFrom([]string{"1", "1.15", "1.2"}).Draw(rt, "premium"),
		Discount:   rapid.SampledFrom([]string{"0.7", "0.9", "0.5"}).Draw(rt, "discount"),
		Incentive:  rapid.SampledFrom([]string{"0", "0.1", "0.333333333333333333"}).Draw(rt, "incentive"),
		MinUsdLeft: uint64(rapid.SampledFrom([]int{0, 1000, 100000}).Draw(rt, "minusd")),
		BidFactor:  rapid.SampledFrom([]string{"0.01", "0.1", "0.000000000000000001"}).Draw(rt, "bidfactor"),
		WdFee:      rapid.SampledFrom([]string{"0", "0.001", "0.02"}).Draw(rt, "wdfee"),
		ClFee:      rapid.SampledFrom([]string{"0", "0.001", "0.02"}).Draw(rt, "clfee"),
		ExtPenalty: rapid.SampledFrom([]string{"0.05", "0", "0.12"}).Draw(rt, "extpenalty"),
		ExtBonus:   rapid.SampledFrom([]string{"0.02", "0", "0.05"}).Draw(rt, "extbonus"),
	}
	for i := 0; i < napps; i++ {
		on := rapid.IntRange(0, 9).Draw(rt, fmt.Sprintf("liqwl%d", i)) > 0
		l.Apps = append(l.Apps, vLiqApp{Whitelisted: on, Dutch: on && rapid.IntRange(0, 9).Draw(rt, fmt.Sprintf("liqdutch%d", i)) > 0, English: true})
	}
	return l
}

func (m *vMachine) setupLiq() {
	c, l := m.c, m.cs.Cfg.Liq
	c.App.NewliqKeeper.SetParams(c.Ctx, liqv2types.Params{LiquidationBatchSize: l.Batch})
	c.App.NewaucKeeper.SetAuctionParams(c.Ctx, auctypes.AuctionParams{AuctionDurationSeconds: l.Duration, Step: sdk.MustNewDecFromStr("0.1"),
		WithdrawalFee: sdk.MustNewDecFromStr(l.WdFee), ClosingFee: sdk.MustNewDecFromStr(l.ClFee), MinUsdValueLeft: l.MinUsdLeft, BidFactor: sdk.MustNewDecFromStr(l.BidFactor),
		LiquidationPenalty: sdk.MustNewDecFromStr(l.ExtPenalty), AuctionBonus: sdk.MustNewDecFromStr(l.ExtBonus)})
	for i, a := range l.Apps {
		if !a.Whitelisted {
			continue
		}
		if err := c.App.NewliqKeeper.WhitelistLiquidation(c.Ctx, liqv2types.LiquidationWhiteListing{AppId: m.apps[i], Initiator: true, IsDutchActivated: a.Dutch,
			DutchAuctionParam:  &liqv2types.DutchAuctionParam{Premium: sdk.MustNewDecFromStr(l.Premium), Discount: sdk.MustNewDecFromStr(l.Discount), DecrementFactor: sdk.NewInt(1)},
			IsEnglishActivated: a.English, EnglishAuctionParam: &liqv2types.EnglishAuctionParam{DecrementFactor: sdk.NewInt(1)}, KeeeperIncentive: sdk.MustNewDecFromStr(l.Incentive)}); err != nil {
			panic(err)
		}
	}
	m.seized = map[uint64]*seizedVault{}
	m.ledgers = map[uint64]*aucLedger{}
	m.retained = map[string]sdk.Int{}
}

// ---- model records ----

type seizedVault struct {
	locked     uint64
	orig       uint64
	product    int
	principal  sdk.Int
	collateral sdk.Int
	totalOut   sdk.Int
	initiator  string
}

type aucLedger struct {
	id        uint64
	locked    uint64
	initiator string
	target    sdk.Int // target debt
	seized    sdk.Int // collateral handed to the auction
	paid      sdk.Int
	collOut   sdk.Int
	start     time.Time
	lastPrice sdk.Dec
	initial   sdk.Dec
	bids      int
	bidders   map[int]bool
	restarts  int
	closedBy  string
}

type liqSnap struct {
	vaults   map[uint64]vaulttypes.Vault
	locked   map[uint64]liqv2types.LockedVault
	auctions map[uint64]auctypes.Auction
	bal      map[string]sdk.Int // "module/denom"
	limit    map[string]sdk.Int // limit-bid deposits per debt denom
	nLimit   int                // number of limit-bid records
}

func (m *vMachine) liqSnapshot() *liqSnap {
	c, cfg := m.c, &m.cs.Cfg
	s := &liqSnap{vaults: map[uint64]vaulttypes.Vault{}, locked: map[uint64]liqv2types.LockedVault{}, auctions: map[uint64]auctypes.Auction{}, bal: map[string]sdk.Int{}}
	for _, v := range c.App.VaultKeeper.GetVaults(c.Ctx) {
		s.vaults[v.Id] = v
	}
	for _, lv := range c.App.NewliqKeeper.GetLockedVaults(c.Ctx) {
		s.locked[lv.LockedVaultId] = lv
	}
	for _, a := range c.App.NewaucKeeper.GetAuctions(c.Ctx) {
		s.auctions[a.AuctionId] = a
	}
	s.limit = map[string]sdk.Int{}
	for _, pd := range c.App.NewaucKeeper.GetAllLimitBidProtocolData(c.Ctx) {
		if da := m.assetByID(pd.DebtAssetId); da != nil {
			if _, ok := s.limit[da.Denom]; !ok {
				s.limit[da.Denom] = sdk.ZeroInt()
			}
			sum, n := m.limitDepositsN(pd.DebtAssetId, pd.CollateralAssetId)
			s.limit[da.Denom] = s.limit[da.Denom].Add(sum)
			s.nLimit += n
		}
	}
	for _, a := range cfg.Assets {
		s.bal["vault/"+a.Denom] = c.Bal(vaultAddr(), a.Denom)
		s.bal["auction/"+a.Denom] = c.Bal(auctionAddr(), a.Denom)
		s.bal["collector/"+a.Denom] = c.Bal(collectorAddr(), a.Denom)
		s.bal["reserve/"+a.Denom] = c.Bal(liqv2Addr(), a.Denom)
	}
	return s
}

func (m *vMachine) assetByID(id uint64) *vAsset {
	for i := range m.cs.Cfg.Assets {
		if m.cs.Cfg.Assets[i].ID == id {
			return &m.cs.Cfg.Assets[i]
		}
	}
	return nil
}

func (m *vMachine) productIdxByID(id uint64) int {
	for i := range m.cs.Cfg.Products {
		if m.cs.Cfg.Products[i].ID == id {
			return i
		}
	}
	return -1
}

func (m *vMachine) appIdx(id uint64) int {
	for i, a := range m.apps {
		if a == id {
			return i
		}
	}
	return -1
}

// liquidation enabled for the app of this product and prices usable?
func (m *vMachine) liqEnabled(p *vProduct) bool {
	la := m.cs.Cfg.Liq.Apps[p.App]
	if !la.Whitelisted || !la.Dutch {
		return false
	}
	_, ain, _, aout := m.prices(p)
	if !ain || !aout {
		return false
	}
	// the auction needs an active feed for the debt asset even when the product prices it at a fixed value
	t, ok := m.c.App.MarketKeeper.GetTwa(m.c.Ctx, m.outAsset(p).ID)
	return ok && t.IsPriceActive
}

// ---- op generation ----

func (m *vMachine) genLiqOp(rt *rapid.T, i int) (vOp, bool) {
	cfg := &m.cs.Cfg
	lbl := func(s string) string { return fmt.Sprintf("%s_%d", s, i) }
	kinds := []string{"crash", "crash", "liqmsg", "liqmsg", "bid", "bid", "bid", "bid", "block", "block", "extliq", "reserve", "lbdep", "lbdep", "lbwd", "lbcancel"}
	if m.prop == "C11" {
		kinds = append(kinds, "lbdep", "lbwd", "lbwd", "lbcancel", "bid")
	}
	if len(m.c.App.NewaucKeeper.GetAuctions(m.c.Ctx)) > 0 {
		kinds = append(kinds, "bid", "bid", "bid", "bid", "bid", "block", "block", "lbdep", "lbdep", "block")
	}
	k := rapid.SampledFrom(kinds).Draw(rt, lbl("liqkind"))
	if len(m.c.App.NewaucKeeper.GetAuctions(m.c.Ctx)) > 0 && rapid.IntRange(0, 4).Draw(rt, lbl("limitnow")) == 0 {
		k = "lbdep"
	}
	op := vOp{K: k, U: rapid.IntRange(0, cfg.NUsers-1).Draw(rt, lbl("user"))}
	c := m.c
	switch k {
	case "block":
		op.Dt = rapid.SampledFrom([]int64{5, 6, 30, 600, int64(cfg.Liq.Duration), int64(cfg.Liq.Duration) + 1, 86400}).Draw(rt, lbl("dt"))
	case "crash":
		// move a collateral price so that some vault becomes unsafe: scale by 0.3 .. 0.98
		op.K = "price"
		op.Asset = rapid.IntRange(0, cfg.NColl-1).Draw(rt, lbl("asset"))
		tw, _ := c.App.MarketKeeper.GetTwa(c.Ctx, cfg.Assets[op.Asset].ID)
		f := rapid.SampledFrom([]uint64{30, 50, 70, 85, 95, 98, 99}).Draw(rt, lbl("factor"))
		op.Price, op.Active = tw.Twa*f/100, true
		if op.Price == 0 {
			op.Price = 1
		}
	case "liqmsg":
		vs := c.App.VaultKeeper.GetVaults(c.Ctx)
		if len(vs) == 0 {
			return vOp{}, false
		}
		op.A = fmt.Sprint(vs[rapid.IntRange(0, len(vs)-1).Draw(rt, lbl("vault"))].Id)
	case "bid":
		as := c.App.NewaucKeeper.GetAuctions(c.Ctx)
		if len(as) == 0 {
			return vOp{}, false
		}
		a := as[rapid.IntRange(0, len(as)-1).Draw(rt, lbl("auction"))]
		op.B = fmt.Sprint(a.AuctionId)
		rem := a.DebtToken.Amount
		var amt sdk.Int
		switch rapid.IntRange(0, 7).Draw(rt, lbl("bk")) {
		case 0:
			amt = sdk.OneInt()
		case 1:
			amt = rem.QuoRaw(2)
		case 2:
			amt = rem.SubRaw(1)
		case 3:
			amt = rem
		case 4:
			amt = rem.AddRaw(1)
		case 5:
			amt = rem.MulRaw(10)
		default:
			amt = rem.QuoRaw(rapid.Int64Range(3, 20).Draw(rt, lbl("bq")))
		}
		op.A = clampPos(amt).String()
	case "extliq":
		op.P = rapid.IntRange(0, len(cfg.Products)-1).Draw(rt, lbl("product")) // borrows its asset pair and app
		op.A = rapid.SampledFrom([]string{"1000000", "123456789", "5000000000"}).Draw(rt, lbl("coll"))
		op.B = rapid.SampledFrom([]string{"500000", "100000000", "900000000"}).Draw(rt, lbl("debt"))
	case "reserve":
		op.P = rapid.IntRange(0, len(cfg.Products)-1).Draw(rt, lbl("product"))
		op.A = rapid.SampledFrom([]string{"1000000", "50000000000"}).Draw(rt, lbl("amt"))
	case "lbdep", "lbwd", "lbcancel":
		op.P = rapid.IntRange(0, len(cfg.Products)-1).Draw(rt, lbl("product"))
		op.Asset = rapid.SampledFrom([]int{0, 1, 5, 10, 29, 30}).Draw(rt, lbl("premium"))
		switch k {
		case "lbdep":
			op.A = rapid.SampledFrom([]string{"10", "1000000", "250000000"}).Draw(rt, lbl("amt"))
			// relative to a live auction of the same asset pair: exactly its remaining debt, one less, one more
			// (the automatic bid then closes the auction with nothing / one unit left of the deposit)
			p := m.product(op.P)
			var rel []auctypes.Auction
			for _, a := range c.App.NewaucKeeper.GetAuctions(c.Ctx) {
				if a.AuctionType && a.DebtAssetId == m.outAsset(p).ID && a.CollateralAssetId == m.inAsset(p).ID {
					rel = append(rel, a)
				}
			}
			if len(rel) > 0 && rapid.IntRange(0, 3).Draw(rt, lbl("rel")) > 0 {
				a := rel[rapid.IntRange(0, len(rel)-1).Draw(rt, lbl("relauction"))]
				if rapid.Bool().Draw(rt, lbl("relamt")) {
					op.A = clampPos(a.DebtToken.Amount.AddRaw(rapid.Int64Range(-1, 1).Draw(rt, lbl("reloff")))).String()
				}
				// the discount the auction posts now (or will post shortly): the next blocks execute the bid
				cur := int64(0)
				if a.CollateralTokenOraclePrice.IsPositive() && a.CollateralTokenOraclePrice.GT(a.CollateralTokenAuctionPrice) {
					cur = a.CollateralTokenOraclePrice.Sub(a.CollateralTokenAuctionPrice).Quo(a.CollateralTokenOraclePrice).MulInt64(100).TruncateInt64()
				}
				cur += int64(rapid.IntRange(0, 3).Draw(rt, lbl("relprem")))
				if cur > 30 {
					cur = 30
				}
				op.Asset = int(cur)
				// or the discount it will post in the next block, which is then generated with that time step
				d := int64(cfg.Liq.Duration)
				dt := rapid.SampledFrom([]int64{0, 5, 6, 30, 600, d / 10, d / 3, d / 2, d * 4 / 5}).Draw(rt, lbl("reldt"))
				if tw, ok := c.App.MarketKeeper.GetTwa(c.Ctx, a.CollateralAssetId); ok && dt > 0 {
					if pm, ok := premiumAfter(a, c.Ctx.BlockTime(), dt, tw.Twa, cfg.Liq.Duration, sdk.MustNewDecFromStr(cfg.Liq.Discount)); ok {
						op.Asset = int(pm)
						m.forced = append(m.forced, vOp{K: "block", Dt: dt})
					}
				}
			}
		case "lbwd":
			p := m.product(op.P)
			dep := sdk.ZeroInt()
			if lb, ok := c.App.NewaucKeeper.GetUserLimitBidData(c.Ctx, m.outAsset(p).ID, m.inAsset(p).ID, sdk.NewInt(int64(op.Asset)), c.Accs[op.U].Addr.String()); ok {
				dep = lb.DebtToken.Amount
			}
			switch rapid.IntRange(0, 4).Draw(rt, lbl("wk")) {
			case 0:
				op.A = clampPos(dep.SubRaw(1)).String()
			case 1:
				op.A = clampPos(dep).String()
			case 2:
				op.A = dep.AddRaw(1).String()
			case 3:
				op.A = clampPos(dep.MulRaw(10)).String()
			default:
				op.A = clampPos(dep.QuoRaw(3)).String()
			}
			// denomination supplied in the message: deposited, collateral, or unrelated
			op.B = rapid.SampledFrom([]string{"debt", "debt", "debt", "collateral", "other"}).Draw(rt, lbl("denom"))
		}
	}
	return op, true
}

// ---- applying ----

func (m *vMachine) applyLiq(i int, op vOp) {
	c, cfg := m.c, &m.cs.Cfg
	from := c.Accs[op.U].Addr
	switch op.K {
	case "liqmsg":
		id := mustInt(op.A).Uint64()
		if _, err := c.Deliver(liqv2types.NewMsgLiquidateInternalKeeperRequest(from, 0, id)); err == nil {
			m.okKinds["liqmsg"]++
		}
	case "bid":
		m.applyBid(i, op)
	case "extliq":
		p := m.product(op.P)
		msg := liqv2types.NewMsgLiquidateExternalKeeperRequest(from, m.apps[p.App], c.Accs[(op.U+1)%cfg.NUsers].Addr.String(),
			sdk.NewCoin(m.inAsset(p).Denom, mustInt(op.A)), sdk.NewCoin(m.outAsset(p).Denom, mustInt(op.B)), m.inAsset(p).ID, m.outAsset(p).ID, !p.OutOracle)
		if _, err := c.Deliver(msg); err == nil {
			m.okKinds["extliq"]++
		}
	case "reserve":
		p := m.product(op.P)
		if _, err := c.Deliver(liqv2types.NewMsgAppReserveFundsRequest(from.String(), m.apps[p.App], m.outAsset(p).ID, sdk.NewCoin(m.outAsset(p).Denom, mustInt(op.A)))); err == nil {
			m.okKinds["reserve"]++
		}
	case "lbdep", "lbwd", "lbcancel":
		m.applyLimitBid(i, op)
	}
}

func (m *vMachine) userIdx(addr string) int {
	for i, a := range m.c.Accs {
		if a.Addr.String() == addr {
			return i
		}
	}
	return -1
}

func (m *vMachine) applyBid(i int, op vOp) {
	c := m.c
	from := c.Accs[op.U].Addr
	id := mustInt(op.B).Uint64()
	a, err := c.App.NewaucKeeper.GetAuction(c.Ctx, id)
	if err != nil {
		return
	}
	lv, _ := c.App.NewliqKeeper.GetLockedVault(c.Ctx, a.AppId, a.LockedVaultId)
	debtDen, collDen := a.DebtToken.Denom, a.CollateralToken.Denom
	balD, balC := c.Bal(from, debtDen), c.Bal(from, collDen)
	bidCoin := sdk.NewCoin(debtDen, mustInt(op.A))
	if !a.AuctionType && lv.InitiatorType == "debt" {
		bidCoin = sdk.NewCoin(collDen, mustInt(op.A))
	}
	_, derr := c.Deliver(auctypes.NewMsgPlaceMarketBid(from.String(), id, bidCoin))
	if derr != nil && m.prop == "C10" && strings.HasPrefix(derr.Error(), "panic in handler") {
		// the handler gave up half way: a bid that would close the auction can then never be placed, and the auction
		// never ends and distributes what it holds
		m.fail("C10.bid-is-settled-or-refused-cleanly", "initiator:"+lv.InitiatorType, "step %d: bid of %s on auction %d by user %d: %v", i, op.A, id, op.U, derr)
	}
	if derr != nil {
		if debugErrs {
			e := derr.Error()
			if len(e) > 60 {
				e = e[:60]
			}
			m.r.Class("err:bid:" + e)
		}
		return
	}
	m.okKinds["bid"]++
	if !a.AuctionType {
		m.englishBidAccepted(i, op, a, lv)
		return
	}
	paid := balD.Sub(c.Bal(from, debtDen))
	got := c.Bal(from, collDen).Sub(balC)
	if lv.Owner == from.String() || lv.InternalKeeperAddress == from.String() || lv.ExternalKeeperAddress == from.String() {
		// at close the owner receives the unsold collateral, the keeper its incentive and the external
		// initiator the recovered debt: when the closing bidder is one of them the balance deltas mix the
		// purchase with those payouts, so the per-bid price check is skipped for that bid
		if _, gerr := c.App.NewaucKeeper.GetAuction(c.Ctx, id); gerr != nil {
			m.r.Class("closing-bidder-also-receives-payout")
			got = sdk.ZeroInt().Sub(sdk.OneInt())
			if paid.IsNegative() || paid.GT(a.DebtToken.Amount) {
				paid = a.DebtToken.Amount
			}
		}
	}
	led := m.ledgers[id]
	if led == nil {
		return
	}
	led.bids++
	led.bidders[op.U] = true
	led.paid = led.paid.Add(paid)
	if m.prop != "C10" {
		if !got.IsNegative() {
			led.collOut = led.collOut.Add(got)
		}
		return
	}
	ctx := "initiator:" + lv.InitiatorType
	if paid.GT(a.DebtToken.Amount) {
		m.fail("C10.bid-pays-at-most-remaining-debt", ctx, "step %d: bid on auction %d paid %s, remaining debt was %s", i, id, paid, a.DebtToken.Amount)
	}
	if led.paid.GT(led.target) {
		m.fail("C10.total-paid-within-target-debt", ctx, "step %d: bidders paid %s in total, target debt %s", i, led.paid, led.target)
	}
	if !got.IsNegative() {
		led.collOut = led.collOut.Add(got)
		if led.collOut.GT(led.seized) {
			m.fail("C10.total-collateral-within-seized", ctx, "step %d: bidders received %s collateral in total, seized %s", i, led.collOut, led.seized)
		}
		// posted price: never more collateral than (paid + advertised bonus) buys at the posted price
		debtPrice := a.DebtTokenOraclePrice
		if lv.IsDebtCmst {
			debtPrice = sdk.NewDec(1000000)
		} else if t, ok := c.App.MarketKeeper.GetTwa(c.Ctx, a.DebtAssetId); ok {
			debtPrice = sdk.NewDec(int64(t.Twa))
		}
		da, ca := m.assetByID(a.DebtAssetId), m.assetByID(a.CollateralAssetId)
		if da != nil && ca != nil && a.CollateralTokenAuctionPrice.IsPositive() {
			// one smallest unit of rounding on either coin: the shortfall branch converts the remaining
			// collateral into a truncated debt amount, so the buyer may be undercharged by < 1 debt unit
			val := new(big.Rat).Mul(ratInt(paid.AddRaw(1).Add(a.BonusAmount)), decRat(debtPrice))
			val.Quo(val, ratInt(world.Pow10(da.DecExp)))
			qty := new(big.Rat).Quo(val, decRat(a.CollateralTokenAuctionPrice))
			qty.Mul(qty, ratInt(world.Pow10(ca.DecExp)))
			qty.Add(qty, big.NewRat(3, 1))
			if ratInt(got).Cmp(qty) > 0 {
				m.fail("C10.bid-at-posted-price", ctx, "step %d: bid of %s (+ advertised bonus %s) on auction %d at posted price %s received %s collateral, at most %s allowed", i, paid, a.BonusAmount, id, a.CollateralTokenAuctionPrice, got, qty.FloatString(2))
			}
		}
	}
	if _, gerr := c.App.NewaucKeeper.GetAuction(c.Ctx, id); gerr != nil {
		led.closedBy = "bid"
	}
}

// ---- observation after every step ----

func (m *vMachine) liqObserve(i int, op vOp, pre *liqSnap) {
	c, cfg := m.c, &m.cs.Cfg
	post := m.liqSnapshot()
	step := "sweep"
	if op.K != "block" {
		step = "message:" + op.K
	}
	// new locked vaults => seizures
	var newLocked []uint64
	for id := range post.locked {
		if _, ok := pre.locked[id]; !ok {
			newLocked = append(newLocked, id)
		}
	}
	sort.Slice(newLocked, func(a, b int) bool { return newLocked[a] < newLocked[b] })
	seizedColl := map[string]sdk.Int{}
	for _, id := range newLocked {
		lv := post.locked[id]
		// its auction
		var auc *auctypes.Auction
		n := 0
		for aid := range post.auctions {
			a := post.auctions[aid]
			if a.LockedVaultId == id && a.AppId == lv.AppId {
				n++
				auc = &a
			}
		}
		if n != 1 && (m.prop == "C09" || m.prop == "C10") {
			m.fail(m.prop+".one-auction-per-seizure", step+",initiator:"+lv.InitiatorType, "step %d: locked vault %d has %d auctions", i, id, n)
		}
		if auc != nil {
			m.ledgers[auc.AuctionId] = &aucLedger{id: auc.AuctionId, locked: id, initiator: lv.InitiatorType, target: lv.TargetDebt.Amount, seized: auc.CollateralToken.Amount,
				paid: sdk.ZeroInt(), collOut: sdk.ZeroInt(), start: auc.StartTime, lastPrice: auc.CollateralTokenAuctionPrice, initial: auc.CollateralTokenInitialPrice, bidders: map[int]bool{}}
		}
		if lv.InitiatorType != "vault" {
			continue
		}
		pv, had := pre.vaults[lv.OriginalVaultId]
		if !had {
			m.fail("C09.seizure-of-known-vault", step, "step %d: locked vault %d refers to vault %d which was not open", i, id, lv.OriginalVaultId)
		}
		pi := m.productIdxByID(pv.ExtendedPairVaultID)
		p := m.product(pi)
		m.seized[id] = &seizedVault{locked: id, orig: pv.Id, product: pi, principal: pv.AmountOut, collateral: pv.AmountIn, totalOut: lv.DebtToken.Amount, initiator: "vault"}
		m.nSeized++
		d := m.inAsset(p).Denom
		if _, ok := seizedColl[d]; !ok {
			seizedColl[d] = sdk.ZeroInt()
		}
		seizedColl[d] = seizedColl[d].Add(pv.AmountIn)
		if m.prop != "C09" {
			continue
		}
		if _, still := post.vaults[pv.Id]; still {
			m.fail("C09.seized-vault-removed", step, "step %d: vault %d was seized but is still open", i, pv.Id)
		}
		// safety: exact ratio with the total debt recorded at seizure
		ratio := m.ratio(p, pv.AmountIn, lv.DebtToken.Amount)
		minCr := decRat(sdk.MustNewDecFromStr(p.MinCr))
		if ratio != nil {
			slack := new(big.Rat).Mul(minCr, big.NewRat(1, 1000000000000000))
			if ratio.Cmp(new(big.Rat).Add(minCr, slack)) >= 0 {
				m.fail("C09.only-unsafe-vaults-seized", step, "step %d: vault %d seized with collateral value / total debt value = %s, liquidation ratio %s", i, pv.Id, ratio.FloatString(20), p.MinCr)
			}
			diff := new(big.Rat).Sub(ratio, minCr)
			if diff.Abs(diff).Cmp(new(big.Rat).Mul(minCr, big.NewRat(1, 1000))) <= 0 {
				m.r.Class("seized-within-0.1%-of-ratio")
			}
		}
		if !m.liqEnabledAt(pre, p) {
			m.fail("C09.no-seizure-while-disabled", step, "step %d: vault %d seized although liquidation / dutch auctions are not enabled for its app or a price is inactive", i, pv.Id)
		}
		if !lv.CollateralToken.Amount.Equal(pv.AmountIn) || (auc != nil && !auc.CollateralToken.Amount.Equal(pv.AmountIn)) {
			m.fail("C09.seizure-moves-recorded-collateral", step, "step %d: vault %d held %s collateral, locked vault records %s", i, pv.Id, pv.AmountIn, lv.CollateralToken.Amount)
		}
	}
	if m.prop == "C09" {
		// custody leaves the vault account exactly by the seized collateral (only in steps that do nothing else to custody)
		if op.K == "block" || op.K == "liqmsg" {
			for ai := 0; ai < cfg.NColl; ai++ {
				d := cfg.Assets[ai].Denom
				want := sdk.ZeroInt()
				if v, ok := seizedColl[d]; ok {
					want = v
				}
				if got := pre.bal["vault/"+d].Sub(post.bal["vault/"+d]); !got.Equal(want) {
					m.fail("C09.custody-moves-exactly-seized-collateral", step, "step %d: vault custody of %s fell by %s, seized collateral %s", i, d, got, want)
				}
			}
		}
		// vaults that vanished without a locked vault (and without close)
		if op.K == "block" || op.K == "liqmsg" {
			for id := range pre.vaults {
				if _, ok := post.vaults[id]; ok {
					continue
				}
				found := false
				for _, lid := range newLocked {
					if post.locked[lid].OriginalVaultId == id && post.locked[lid].InitiatorType == "vault" {
						found = true
					}
				}
				if !found {
					m.fail("C09.seizure-opens-auction", step, "step %d: vault %d disappeared without a locked vault and auction", i, id)
				}
			}
		}
	}
	// auctions: price path, restarts, closes
	for id, led := range m.ledgers {
		a, live := post.auctions[id]
		if !live {
			if _, was := pre.auctions[id]; was {
				if led.closedBy == "" {
					led.closedBy = step
				}
				m.nClosed++
				m.r.Class("auction-closed:" + led.initiator)
				if led.bids >= 2 && len(led.bidders) >= 2 {
					m.nRichClose++
				}
				delete(m.seized, led.locked)
				delete(m.ledgers, id)
			}
			continue
		}
		if !a.AuctionType {
			continue
		}
		if !a.StartTime.Equal(led.start) {
			led.restarts++
			led.start, led.initial, led.lastPrice = a.StartTime, a.CollateralTokenInitialPrice, a.CollateralTokenAuctionPrice
			m.nRestarts++
			if m.prop == "C10" {
				m.checkStartPrice(i, a, "restart")
			}
			continue
		}
		if m.prop == "C10" {
			if a.CollateralTokenAuctionPrice.GT(led.lastPrice) {
				m.fail("C10.posted-price-non-increasing", "initiator:"+led.initiator, "step %d: posted price of auction %d rose from %s to %s without a restart", i, id, led.lastPrice, a.CollateralTokenAuctionPrice)
			}
			end := a.CollateralTokenInitialPrice.Mul(sdk.MustNewDecFromStr(cfg.Liq.Discount))
			lo := end.Mul(sdk.OneDec().Sub(sdk.NewDec(2).QuoInt64(int64(cfg.Liq.Duration))))
			if a.CollateralTokenAuctionPrice.GT(a.CollateralTokenInitialPrice) || (a.CollateralTokenAuctionPrice.LT(lo) && !c.Ctx.BlockTime().After(a.EndTime)) {
				m.fail("C10.posted-price-within-start-and-end", "initiator:"+led.initiator, "step %d: posted price %s of auction %d outside [end %s, start %s]", i, a.CollateralTokenAuctionPrice, id, end, a.CollateralTokenInitialPrice)
			}
		}
		led.lastPrice = a.CollateralTokenAuctionPrice
	}
	if op.K == "block" {
		// automatic limit-order bids of this block
		reduced := false
		for d, v := range pre.limit {
			if w, ok := post.limit[d]; ok && w.LT(v) {
				reduced = true
			}
		}
		if reduced {
			m.r.Class("autobid:deposits-reduced-in-block")
			if post.nLimit < pre.nLimit {
				m.r.Class("autobid:deposit-used-up")
			}
			if len(post.auctions) < len(pre.auctions) {
				m.r.Class("autobid:block-also-closes-auction")
			}
		}
	}
	if m.prop == "C10" {
		for _, id := range newLocked {
			for _, a := range post.auctions {
				if a.LockedVaultId == id && a.AuctionType {
					m.checkStartPrice(i, a, "start")
				}
			}
		}
		m.auctionCustody(i, op, pre, post)
	}
	if m.prop == "C11" {
		m.c11Invariants(i, op, post)
	}
}

func (m *vMachine) liqEnabledAt(pre *liqSnap, p *vProduct) bool { return m.liqEnabled(p) }

func (m *vMachine) checkStartPrice(i int, a auctypes.Auction, when string) {
	t, ok := m.c.App.MarketKeeper.GetTwa(m.c.Ctx, a.CollateralAssetId)
	if !ok {
		return
	}
	want := sdk.MustNewDecFromStr(m.cs.Cfg.Liq.Premium).Mul(sdk.NewDec(int64(t.Twa)))
	if !a.CollateralTokenInitialPrice.Equal(want) || !a.CollateralTokenAuctionPrice.Equal(want) {
		m.fail("C10.start-price-is-oracle-times-premium", when, "step %d: auction %d %ss at initial %s / posted %s, oracle %d x premium %s = %s", i, a.AuctionId, when, a.CollateralTokenInitialPrice, a.CollateralTokenAuctionPrice, t.Twa, m.cs.Cfg.Liq.Premium, want)
	}
}

// auctionCustody: the auction account holds exactly what live auctions, limit
// bids and retained fees account for — nothing of a closed auction remains.
func (m *vMachine) auctionCustody(i int, op vOp, pre, post *liqSnap) {
	c, cfg := m.c, &m.cs.Cfg
	exp := map[string]sdk.Int{}
	add := func(d string, v sdk.Int) {
		if _, ok := exp[d]; !ok {
			exp[d] = sdk.ZeroInt()
		}
		exp[d] = exp[d].Add(v)
	}
	for _, a := range post.auctions {
		lv := post.locked[a.LockedVaultId]
		if a.AuctionType {
			add(a.CollateralToken.Denom, a.CollateralToken.Amount)
			add(a.DebtToken.Denom, lv.TargetDebt.Amount.Sub(a.DebtToken.Amount)) // collected so far, not yet distributed
		} else if a.ActiveBiddingId != 0 {
			if lv.InitiatorType == "debt" {
				add(a.DebtToken.Denom, a.DebtToken.Amount)
			} else {
				add(a.DebtToken.Denom, a.DebtToken.Amount)
			}
		}
	}
	for _, pd := range c.App.NewaucKeeper.GetAllLimitBidProtocolData(c.Ctx) {
		if da := m.assetByID(pd.DebtAssetId); da != nil {
			add(da.Denom, m.limitDeposits(pd.DebtAssetId, pd.CollateralAssetId))
		}
	}
	for d, v := range m.retained {
		add(d, v)
	}
	// penalties of externally initiated liquidations are "booked as auction-module fees": the
	// module's own record of them is an accepted destination of the proceeds
	for _, a := range cfg.Assets {
		if fd, ok := c.App.NewaucKeeper.GetAuctionLimitBidFeeDataExternal(c.Ctx, a.ID); ok && !fd.Amount.IsNil() {
			add(a.Denom, fd.Amount)
		}
	}
	for _, a := range cfg.Assets {
		want, ok := exp[a.Denom]
		if !ok {
			want = sdk.ZeroInt()
		}
		if have := post.bal["auction/"+a.Denom]; !have.Equal(want) {
			ctx := "after:" + op.K
			// signature of the former finding C10-F1 (repaired in ea1465a): in this block an automatic limit-order bid met an auction
			// whose collateral no longer covers the debt; the app reserve paid the shortfall AND the limit
			// bidder's deposit was reduced by the whole remaining debt, so the difference stays in custody
			preLim, postLim := pre.limit[a.Denom], post.limit[a.Denom]
			if op.K == "block" && have.GT(want) && !preLim.IsNil() && !postLim.IsNil() && postLim.LT(preLim) &&
				post.bal["reserve/"+a.Denom].LT(pre.bal["reserve/"+a.Denom]) {
				ctx = "limit-autobid-on-shortfall-auction"
			}
			m.fail("C10.auction-custody-fully-accounted", ctx, "step %d: auction custody holds %s%s; live auctions, limit-bid deposits and retained fees account for %s", i, have, a.Denom, want)
		}
	}
}

// limitDeposits sums the individual limit-bid deposits of a (debt, collateral) pair.
func (m *vMachine) limitDeposits(debtID, collID uint64) sdk.Int {
	sum, _ := m.limitDepositsN(debtID, collID)
	return sum
}

func (m *vMachine) limitDepositsN(debtID, collID uint64) (sdk.Int, int) {
	sum, n := sdk.ZeroInt(), 0
	for prem := int64(0); prem <= 30; prem++ {
		if bids, ok := m.c.App.NewaucKeeper.GetUserLimitBidDataByPremium(m.c.Ctx, debtID, collID, sdk.NewInt(prem)); ok {
			for _, b := range bids {
				sum = sum.Add(b.DebtToken.Amount)
				n++
			}
		}
	}
	return sum, n
}
