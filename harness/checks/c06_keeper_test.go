package checks

// C06 at keeper level: the liquidity machine (deposits, deposit-and-farm, withdrawals, withdrawals that offer another
// pool's share coin, trades) with one oracle: through every operation and every batch execution the product of a basic
// pool's reserves per squared outstanding share never decreases. Deposits and withdrawals keep the reserves per share of
// both coins (so the product), trades move the reserves along the curve and leave the fee in the pool; shares minted
// without a deposit or reserves paid out without shares being burnt lower it.

import (
	"encoding/json"
	"fmt"
	"math/big"
	"testing"

	sdk "github.com/cosmos/cosmos-sdk/types"
	"pgregory.net/rapid"

	liqtypes "github.com/comdex-official/comdex/x/liquidity/types"

	"verif/rec"
)

type c06Pool struct {
	rx, ry, ps sdk.Int
	basic      bool
	app, id    uint64
	quote      string
	base       string
	// what executed deposit / withdraw requests moved so far (cumulative over the history)
	reqX, reqY sdk.Int
	nDep, nWd  int // executed deposit / withdraw requests seen so far
}

func (m *lMachine) c06Snap() map[string]c06Pool {
	out := map[string]c06Pool{}
	for _, pr := range m.pools {
		pool, ok := m.k.GetPool(m.c.Ctx, pr.app, pr.id)
		if !ok || pool.Disabled {
			continue
		}
		rx, ry := m.k.GetPoolBalances(m.c.Ctx, pool)
		out[pool.PoolCoinDenom] = c06Pool{rx: rx.Amount, ry: ry.Amount, ps: m.k.GetPoolCoinSupply(m.c.Ctx, pool), basic: pool.Type == liqtypes.PoolTypeBasic,
			app: pr.app, id: pr.id, quote: rx.Denom, base: ry.Denom, reqX: sdk.ZeroInt(), reqY: sdk.ZeroInt()}
	}
	// net coins moved by executed requests, from the request records (they stay in the store until the next begin-block;
	// the machine keeps the running totals)
	for _, a := range m.cs.Cfg.Apps {
		for _, dr := range m.k.GetAllDepositRequests(m.c.Ctx, a.ID) {
			if dr.Status != liqtypes.RequestStatusSucceeded {
				continue
			}
			k := fmt.Sprintf("d/%d/%d/%d", a.ID, dr.PoolId, dr.Id)
			if _, seen := m.c06Req[k]; !seen {
				m.c06Req[k] = [3]interface{}{a.ID, dr.PoolId, sdk.NewCoins(dr.AcceptedCoins...)}
			}
		}
		for _, wr := range m.k.GetAllWithdrawRequests(m.c.Ctx, a.ID) {
			if wr.Status != liqtypes.RequestStatusSucceeded {
				continue
			}
			k := fmt.Sprintf("w/%d/%d/%d", a.ID, wr.PoolId, wr.Id)
			if _, seen := m.c06Req[k]; !seen {
				neg := sdk.NewCoins(wr.WithdrawnCoins...)
				m.c06Req[k] = [3]interface{}{a.ID, wr.PoolId, neg}
				m.c06Neg[k] = true
			}
		}
	}
	for d, p := range out {
		x, y := sdk.ZeroInt(), sdk.ZeroInt()
		nd, nw := 0, 0
		for k, rec := range m.c06Req {
			if rec[0].(uint64) != p.app || rec[1].(uint64) != p.id {
				continue
			}
			coins := rec[2].(sdk.Coins)
			dx, dy := coins.AmountOf(p.quote), coins.AmountOf(p.base)
			if m.c06Neg[k] {
				dx, dy = dx.Neg(), dy.Neg()
				nw++
			} else {
				nd++
			}
			x, y = x.Add(dx), y.Add(dy)
		}
		p.reqX, p.reqY, p.nDep, p.nWd = x, y, nd, nw
		out[d] = p
	}
	return out
}

func (m *lMachine) c06Check(i int, when string, pre map[string]c06Pool) {
	post := m.c06Snap()
	for d, a := range pre {
		b, ok := post[d]
		if !ok || !a.basic || !a.ps.IsPositive() || !b.ps.IsPositive() {
			continue
		}
		// trades (orders against the pool, and pools of one pair against each other) also move the reserves; their
		// rounding is C05's subject. Judge only changes fully explained by the executed deposit and withdraw requests.
		dx, dy := b.rx.Sub(a.rx), b.ry.Sub(a.ry)
		if !dx.Equal(b.reqX.Sub(a.reqX)) || !dy.Equal(b.reqY.Sub(a.reqY)) {
			m.r.Class("c06:reserve-change-not-only-deposits-and-withdrawals:not-judged")
			continue
		}
		m.r.Class("c06:judged")
		if !b.ps.Equal(a.ps) {
			m.c06Moves++
		}
		// withdrawals only: what left the reserves is at most the withdrawn shares' pro-rata part less the withdrawal
		// fee. The fee stays in the pool, so the reserves per share rise from one executed withdrawal to the next and
		// the rate after the last one bounds them all.
		if fee := m.params(a.app).WithdrawFeeRate; b.nDep == a.nDep && b.nWd > a.nWd && b.ps.LT(a.ps) && fee.IsPositive() {
			w := new(big.Rat).SetInt(a.ps.Sub(b.ps).BigInt())
			keep := new(big.Rat).Sub(big.NewRat(1, 1), decRat(fee))
			slack := big.NewRat(int64(b.nWd-a.nWd)+2, 1)
			for _, side := range []struct {
				name     string
				was, now sdk.Int
			}{{a.quote, a.rx, b.rx}, {a.base, a.ry, b.ry}} {
				paid := new(big.Rat).SetInt(side.was.Sub(side.now).BigInt())
				bound := new(big.Rat).Mul(w, new(big.Rat).SetFrac(side.now.BigInt(), b.ps.BigInt()))
				bound.Mul(bound, keep).Add(bound, slack)
				if paid.Cmp(bound) > 0 {
					m.fail("C06.withdrawal-pays-pro-rata-less-fee", when, "step %d: pool coin %s: %d withdrawals of %s shares in all took %s%s out of the reserve; pro-rata at the rate after them (%s over %s shares) less the %s fee is %s",
						i, d, b.nWd-a.nWd, a.ps.Sub(b.ps), side.was.Sub(side.now), side.name, side.now, b.ps, fee, bound.FloatString(3))
				}
			}
			m.r.Class("c06:withdrawals-with-fee-judged")
		}
		// (rx*ry)/ps^2 after >= before, up to a few units of rounding on the smaller reserve
		lhs := new(big.Int).Mul(new(big.Int).Mul(b.rx.BigInt(), b.ry.BigInt()), new(big.Int).Mul(a.ps.BigInt(), a.ps.BigInt()))
		rhs := new(big.Int).Mul(new(big.Int).Mul(a.rx.BigInt(), a.ry.BigInt()), new(big.Int).Mul(b.ps.BigInt(), b.ps.BigInt()))
		if lhs.Cmp(rhs) >= 0 {
			continue
		}
		small := a.rx
		if a.ry.LT(small) {
			small = a.ry
		}
		if b.rx.LT(small) {
			small = b.rx
		}
		if b.ry.LT(small) {
			small = b.ry
		}
		if !small.IsPositive() {
			continue
		}
		// relative shortfall (rhs-lhs)/rhs must stay below 8/small
		short := new(big.Rat).SetFrac(new(big.Int).Sub(rhs, lhs), rhs)
		tol := new(big.Rat).SetFrac(big.NewInt(8), small.BigInt())
		if short.Cmp(tol) > 0 {
			f, _ := short.Float64()
			m.fail("C06.reserves-per-share-never-decrease", when, "step %d: pool coin %s: reserves %s / %s over %s shares before, %s / %s over %s after: reserves per share (product) fell by a relative %.3e", i, d, a.rx, a.ry, a.ps, b.rx, b.ry, b.ps, f)
		}
	}
}

func TestC06_keeper(t *testing.T) {
	r := rec.New("C06", "keeper")
	t.Cleanup(r.Flush)
	rapid.Check(t, func(rt *rapid.T) {
		r.Guard(func() {
			r.Eval()
			lc := &lCase{Cfg: genLCfg(rt)}
			m := newLMachine(rt, r, "C06", lc)
			n := rapid.IntRange(20, 60).Draw(rt, "nops")
			for i := 0; i < n; i++ {
				op := m.genOp(rt, i)
				lc.Ops = append(lc.Ops, op)
				m.apply(i, op)
			}
			m.finish()
			if m.c06Moves >= 2 {
				r.NonTrivialSig(rec.Sig(lc), func() interface{} {
					return map[string]interface{}{"ops": len(lc.Ops), "share_supply_changes_on_basic_pools": m.c06Moves, "ok": m.ok}
				})
			}
		})
	})
}

func init() {
	replayers["C06.keeper"] = func(t *testing.T, r *rec.Rec, raw json.RawMessage) {
		var cs lCase
		if err := json.Unmarshal(raw, &cs); err != nil {
			t.Fatal(err)
		}
		r.Eval()
		m := newLMachine(t, r, "C06", &cs)
		for i, op := range cs.Ops {
			m.apply(i, op)
		}
		m.finish()
	}
}
