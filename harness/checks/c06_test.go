package checks

// C06 — pool shares are fair. Input search over (reserves, supply, offers, fee)
// against exact rational arithmetic, exhaustive enumeration of small domains,
// and ranged-pool price-range checks.

import (
	"encoding/json"
	"fmt"
	"math"
	"math/big"
	"os"
	"testing"

	sdkmath "cosmossdk.io/math"
	"pgregory.net/rapid"

	"github.com/comdex-official/comdex/x/liquidity/amm"
	liqtypes "github.com/comdex-official/comdex/x/liquidity/types"

	"verif/rec"
)

type c06Dep struct {
	Rx, Ry, Ps, X, Y string
}
type c06Wd struct {
	Rx, Ry, Ps, Pc, Fee string
}

var tenPow18 = new(big.Int).Exp(big.NewInt(10), big.NewInt(18), nil)

func ratInt(i sdkmath.Int) *big.Rat { return new(big.Rat).SetInt(i.BigInt()) }

// relTol is 10^-17, the relative rounding allowance written in the property.
var relTol = new(big.Rat).SetFrac(big.NewInt(1), new(big.Int).Exp(big.NewInt(10), big.NewInt(17), nil))

func c06CheckDeposit(t rec.TB, r *rec.Rec, c c06Dep) (nontrivial bool) {
	rx, ry, ps, x, y := mustInt(c.Rx), mustInt(c.Ry), mustInt(c.Ps), mustInt(c.X), mustInt(c.Y)
	ax, ay, pc := amm.Deposit(rx, ry, ps, x, y)
	if ax.IsNegative() || ay.IsNegative() || pc.IsNegative() {
		r.Fail(t, "C06.deposit-nonnegative", "deposit", c, "ax=%s ay=%s pc=%s", ax, ay, pc)
	}
	if ax.GT(x) || ay.GT(y) {
		r.Fail(t, "C06.deposit-within-offer", "deposit", c, "accepted (%s,%s) > offered (%s,%s)", ax, ay, x, y)
	}
	if !pc.IsPositive() {
		return false
	}
	// reserves per share must not decrease: (r+a)/(ps+pc) >= r/ps * (1 - 1e-17)
	one := big.NewRat(1, 1)
	lo := new(big.Rat).Sub(one, relTol)
	for _, side := range []struct {
		n    string
		r, a sdkmath.Int
	}{{"x", rx, ax}, {"y", ry, ay}} {
		if side.r.IsZero() {
			continue
		}
		before := new(big.Rat).Quo(ratInt(side.r), ratInt(ps))
		after := new(big.Rat).Quo(ratInt(side.r.Add(side.a)), ratInt(ps.Add(pc)))
		if after.Cmp(new(big.Rat).Mul(before, lo)) < 0 {
			r.Fail(t, "C06.deposit-share-rate", "deposit-"+side.n, c, "reserve/share of %s fell from %s to %s (accepted %s, minted %s)", side.n, before.FloatString(30), after.FloatString(30), side.a, pc)
		}
	}
	// non-trivial: at least one rounding step inexact
	ex := new(big.Rat).Mul(ratInt(rx), new(big.Rat).Quo(ratInt(pc), ratInt(ps)))
	return !ex.IsInt() || !new(big.Rat).Mul(ratInt(ps), new(big.Rat).Quo(ratInt(x), ratInt(sdkmath.MaxInt(rx, sdkmath.OneInt())))).IsInt()
}

func c06CheckWithdraw(t rec.TB, r *rec.Rec, c c06Wd) (nontrivial bool) {
	rx, ry, ps, pc := mustInt(c.Rx), mustInt(c.Ry), mustInt(c.Ps), mustInt(c.Pc)
	fee := sdkmath.LegacyMustNewDecFromStr(c.Fee)
	x, y := amm.Withdraw(rx, ry, ps, pc, fee)
	if x.IsNegative() || y.IsNegative() {
		r.Fail(t, "C06.withdraw-nonnegative", "withdraw", c, "x=%s y=%s", x, y)
	}
	if pc.Equal(ps) {
		if !x.Equal(rx) || !y.Equal(ry) {
			r.Fail(t, "C06.last-share-gets-all", "withdraw", c, "last shares returned (%s,%s) of reserves (%s,%s)", x, y, rx, ry)
		}
		return false
	}
	mult := new(big.Rat).Sub(big.NewRat(1, 1), decRat(fee))
	prop := new(big.Rat).Quo(ratInt(pc), ratInt(ps))
	bx := new(big.Rat).Mul(new(big.Rat).Mul(ratInt(rx), prop), mult)
	by := new(big.Rat).Mul(new(big.Rat).Mul(ratInt(ry), prop), mult)
	if ratInt(x).Cmp(bx) > 0 {
		r.Fail(t, "C06.withdraw-pro-rata", "withdraw-x", c, "x=%s exceeds pro-rata less fee %s", x, bx.FloatString(6))
	}
	if ratInt(y).Cmp(by) > 0 {
		r.Fail(t, "C06.withdraw-pro-rata", "withdraw-y", c, "y=%s exceeds pro-rata less fee %s", y, by.FloatString(6))
	}
	return (x.IsPositive() || y.IsPositive()) && (!bx.IsInt() || !by.IsInt())
}

// genMag draws an integer with log-uniform magnitude in [1, 10^maxExp].
func genMag(t *rapid.T, label string, maxExp int) sdkmath.Int {
	e := rapid.IntRange(0, maxExp).Draw(t, label+"_e")
	switch rapid.IntRange(0, 4).Draw(t, label+"_k") {
	case 0:
		return pow10Int(e)
	case 1:
		v := pow10Int(e).SubRaw(1)
		if !v.IsPositive() {
			v = sdkmath.OneInt()
		}
		return v
	default:
		m := rapid.Int64Range(1, 999999999).Draw(t, label+"_m")
		v := pow10Int(e).MulRaw(m).QuoRaw(100000000)
		if !v.IsPositive() {
			v = sdkmath.OneInt()
		}
		return v
	}
}

func genFee(t *rapid.T) string {
	switch rapid.IntRange(0, 3).Draw(t, "fee_k") {
	case 0:
		return "0"
	case 1:
		return rapid.SampledFrom([]string{"0.003", "0.0033333", "0.3", "0.5", "0.999999999999999999", "0.000000000000000001"}).Draw(t, "fee_c")
	default:
		n := rapid.Int64Range(0, 999999999999999999).Draw(t, "fee_n")
		return sdkmath.LegacyNewDecWithPrec(n, 18).String()
	}
}

func TestC06_shares(t *testing.T) {
	r := rec.New("C06", "shares")
	t.Cleanup(r.Flush)
	rapid.Check(t, func(rt *rapid.T) {
		r.Guard(func() {
			r.Eval()
			if rapid.Bool().Draw(rt, "deposit") {
				rx := genMag(rt, "rx", 40)
				var ry sdkmath.Int
				switch rapid.IntRange(0, 3).Draw(rt, "ratio") {
				case 0: // near 1:1
					ry = rx.AddRaw(rapid.Int64Range(-3, 3).Draw(rt, "dry"))
					if !ry.IsPositive() {
						ry = sdkmath.OneInt()
					}
				default:
					ry = genMag(rt, "ry", 40)
				}
				// single-sided ranged pools have one zero reserve
				switch rapid.IntRange(0, 19).Draw(rt, "zero") {
				case 0:
					rx = sdkmath.ZeroInt()
				case 1:
					ry = sdkmath.ZeroInt()
				}
				ps := genMag(rt, "ps", 40)
				var x, y sdkmath.Int
				if rapid.Bool().Draw(rt, "proportional") && rx.IsPositive() && ry.IsPositive() {
					// offers close to the pool ratio: both roundings matter
					k := genMag(rt, "k", 12)
					den := genMag(rt, "kd", 12)
					x = rx.Mul(k).Quo(den).AddRaw(rapid.Int64Range(0, 2).Draw(rt, "jx"))
					y = ry.Mul(k).Quo(den).AddRaw(rapid.Int64Range(0, 2).Draw(rt, "jy"))
				} else {
					x, y = genMag(rt, "x", 40), genMag(rt, "y", 40)
				}
				if x.GT(amm.MaxCoinAmount) {
					x = amm.MaxCoinAmount
				}
				if y.GT(amm.MaxCoinAmount) {
					y = amm.MaxCoinAmount
				}
				c := c06Dep{rx.String(), ry.String(), ps.String(), x.String(), y.String()}
				r.Class("deposit")
				if c06CheckDeposit(rt, r, c) {
					r.NonTrivial(c)
				}
			} else {
				rx, ry, ps := genMag(rt, "rx", 40), genMag(rt, "ry", 40), genMag(rt, "ps", 40)
				if rapid.IntRange(0, 19).Draw(rt, "zero") == 0 {
					rx = sdkmath.ZeroInt()
				}
				var pc sdkmath.Int
				switch rapid.IntRange(0, 4).Draw(rt, "pck") {
				case 0:
					pc = ps
				case 1:
					pc = ps.SubRaw(1)
				case 2:
					pc = sdkmath.OneInt()
				default:
					pc = ps.Mul(genMag(rt, "pcn", 9)).Quo(pow10Int(9))
				}
				if !pc.IsPositive() {
					pc = sdkmath.OneInt()
				}
				if pc.GT(ps) {
					pc = ps
				}
				c := c06Wd{rx.String(), ry.String(), ps.String(), pc.String(), genFee(rt)}
				r.Class("withdraw")
				if pc.Equal(ps) {
					r.Class("withdraw-last-share")
				}
				if c06CheckWithdraw(rt, r, c) {
					r.NonTrivial(c)
				}
			}
		})
	})
}

// Sequences of deposits and withdrawals on one pool: reserves per share never
// decrease over the whole history (beyond 1e-17 relative per step).
type c06Step struct {
	Dep     bool
	X, Y    string
	Pc, Fee string
}
type c06Seq struct {
	Rx, Ry string
	Steps  []c06Step
}

func c06RunSeq(t rec.TB, r *rec.Rec, c c06Seq) {
	rx, ry := mustInt(c.Rx), mustInt(c.Ry)
	ps := amm.InitialPoolCoinSupply(rx, ry)
	executed := 0
	for i, s := range c.Steps {
		if s.Dep {
			d := c06Dep{rx.String(), ry.String(), ps.String(), s.X, s.Y}
			c06CheckDeposit(t, r, d)
			ax, ay, pc := amm.Deposit(rx, ry, ps, mustInt(s.X), mustInt(s.Y))
			if pc.IsPositive() {
				rx, ry, ps = rx.Add(ax), ry.Add(ay), ps.Add(pc)
				executed++
			}
		} else {
			// pc given as parts-per-billion of the current supply
			pc := ps.Mul(mustInt(s.Pc)).Quo(pow10Int(9))
			if !pc.IsPositive() {
				pc = sdkmath.OneInt()
			}
			if pc.GT(ps) {
				pc = ps
			}
			w := c06Wd{rx.String(), ry.String(), ps.String(), pc.String(), s.Fee}
			c06CheckWithdraw(t, r, w)
			x, y := amm.Withdraw(rx, ry, ps, pc, sdkmath.LegacyMustNewDecFromStr(s.Fee))
			if x.GT(rx) || y.GT(ry) {
				r.Fail(t, "C06.withdraw-within-reserves", "sequence", c, "step %d withdraws (%s,%s) from (%s,%s)", i, x, y, rx, ry)
			}
			if x.IsPositive() || y.IsPositive() {
				rx, ry, ps = rx.Sub(x), ry.Sub(y), ps.Sub(pc)
				executed++
			}
			if ps.IsZero() {
				if !rx.IsZero() || !ry.IsZero() {
					r.Fail(t, "C06.last-share-gets-all", "sequence", c, "supply is zero but reserves (%s,%s) remain", rx, ry)
				}
				break
			}
		}
	}
	if executed >= 3 {
		r.NonTrivial(c)
	}
}

func TestC06_sequences(t *testing.T) {
	r := rec.New("C06", "sequences")
	t.Cleanup(r.Flush)
	rapid.Check(t, func(rt *rapid.T) {
		r.Guard(func() {
			r.Eval()
			c := c06Seq{Rx: genMag(rt, "rx", 30).AddRaw(1).String(), Ry: genMag(rt, "ry", 30).AddRaw(1).String()}
			n := rapid.IntRange(1, 12).Draw(rt, "n")
			for i := 0; i < n; i++ {
				if rapid.Bool().Draw(rt, fmt.Sprintf("dep%d", i)) {
					c.Steps = append(c.Steps, c06Step{Dep: true, X: genMag(rt, fmt.Sprintf("x%d", i), 32).String(), Y: genMag(rt, fmt.Sprintf("y%d", i), 32).String()})
				} else {
					c.Steps = append(c.Steps, c06Step{Pc: genMag(rt, fmt.Sprintf("pc%d", i), 9).String(), Fee: genFee(rt)})
				}
			}
			c06RunSeq(rt, r, c)
		})
	})
}

// Exhaustive enumeration of every small deposit and withdrawal.
func TestC06_exhaustive(t *testing.T) {
	r := rec.New("C06", "exhaustive")
	t.Cleanup(r.Flush)
	n := int64(8)
	if os.Getenv("VERIF_TIER") == "thorough" {
		n = 13
	}
	r.Note("bound", n)
	for rx := int64(0); rx <= n; rx++ {
		for ry := int64(0); ry <= n; ry++ {
			if rx == 0 && ry == 0 {
				continue
			}
			for ps := int64(1); ps <= n; ps++ {
				for x := int64(1); x <= n; x++ {
					for y := int64(1); y <= n; y++ {
						r.Eval()
						c := c06Dep{fmt.Sprint(rx), fmt.Sprint(ry), fmt.Sprint(ps), fmt.Sprint(x), fmt.Sprint(y)}
						if c06CheckDeposit(t, r, c) {
							r.NonTrivial(c)
						}
					}
				}
				for pc := int64(1); pc <= ps; pc++ {
					for _, fee := range []string{"0", "0.003", "0.5"} {
						r.Eval()
						c := c06Wd{fmt.Sprint(rx), fmt.Sprint(ry), fmt.Sprint(ps), fmt.Sprint(pc), fee}
						if c06CheckWithdraw(t, r, c) {
							r.NonTrivial(c)
						}
					}
				}
			}
		}
	}
	r.SetExhaustive(true)
}

// ---- ranged pools: price stays within [min, max] ----

type c06Ranged struct {
	X, Y          string
	Min, Max, Ini string
	Swaps         []int // indices into the pool's own order ladder that get filled, in order
	Prec          int
}

// rangeTol is the relative allowance for the ranged-pool price bound. The
// pool price is (rx+transX)/(ry+transY) where the translation is solved with
// 18-decimal approximate square roots and differences of reciprocals; measured
// on the unchanged tree the excursion outside [min,max] is <= 3e-9 relative
// for prices within [1e-9, 1e9] and reserves >= 100 (it grows like
// 1e-18*maxPrice/reserve beyond that), so 1e-6 is asserted inside that domain
// and nothing outside it (see DESIGN.md, C06 limits).
var rangeTol = new(big.Rat).SetFrac(big.NewInt(1), new(big.Int).Exp(big.NewInt(10), big.NewInt(6), nil))
var rangeDomLo, rangeDomHi = sdkmath.LegacyNewDecWithPrec(1, 9), sdkmath.LegacyNewDec(1000000000)

func c06PriceInRange(t rec.TB, r *rec.Rec, c c06Ranged, p *amm.RangedPool, when string) {
	if p.IsDepleted() {
		return
	}
	if p.MinPrice().LT(rangeDomLo) || p.MaxPrice().GT(rangeDomHi) {
		_ = p.Price() // must still not panic
		r.Class("extreme-price-range-not-asserted")
		return
	}
	r.Class("price-range-asserted:" + when)
	price := decRat(p.Price())
	if os.Getenv("VERIF_C06_MEASURE") != "" {
		// development aid: print relative excursion outside the range
		dev := new(big.Rat)
		if price.Cmp(decRat(p.MinPrice())) < 0 {
			dev.Quo(new(big.Rat).Sub(decRat(p.MinPrice()), price), decRat(p.MinPrice()))
		} else if price.Cmp(decRat(p.MaxPrice())) > 0 {
			dev.Quo(new(big.Rat).Sub(price, decRat(p.MaxPrice())), decRat(p.MaxPrice()))
		}
		if dev.Sign() > 0 {
			f, _ := dev.Float64()
			rx, ry := p.Balances()
			tx, ty := p.Translation()
			xc, _ := decRat(rx.ToLegacyDec().Add(tx)).Float64()
			yc, _ := decRat(ry.ToLegacyDec().Add(ty)).Float64()
			sl, _ := decRat(p.MaxPrice()).Float64()
			sm, _ := decRat(p.MinPrice()).Float64()
			unit := 1e-18 * (1/xc + 1/yc + math.Sqrt(sl) + 1/math.Sqrt(sm))
			fmt.Printf("DEV %.3e ratio=%.3e min=%s max=%s when=%s rx=%s ry=%s\n", f, f/unit, p.MinPrice(), p.MaxPrice(), when, rx, ry)
		}
		return
	}
	lo := new(big.Rat).Mul(decRat(p.MinPrice()), new(big.Rat).Sub(big.NewRat(1, 1), rangeTol))
	hi := new(big.Rat).Mul(decRat(p.MaxPrice()), new(big.Rat).Add(big.NewRat(1, 1), rangeTol))
	if price.Cmp(lo) < 0 || price.Cmp(hi) > 0 {
		rx, ry := p.Balances()
		r.Fail(t, "C06.ranged-price-in-range", when, c, "price %s outside [%s, %s] with reserves (%s,%s)", p.Price(), p.MinPrice(), p.MaxPrice(), rx, ry)
	}
}

type simpleOrderer struct{}

func (simpleOrderer) Order(dir amm.OrderDirection, price sdkmath.LegacyDec, amt sdkmath.Int) amm.Order {
	return amm.NewBaseOrder(dir, price, amt, amm.OfferCoinAmount(dir, price, amt))
}

func c06RunRanged(t rec.TB, r *rec.Rec, c c06Ranged) {
	minP, maxP, ini := sdkmath.LegacyMustNewDecFromStr(c.Min), sdkmath.LegacyMustNewDecFromStr(c.Max), sdkmath.LegacyMustNewDecFromStr(c.Ini)
	if err := amm.ValidateRangedPoolParams(minP, maxP, ini); err != nil {
		r.Class("inadmissible")
		return
	}
	x, y := mustInt(c.X), mustInt(c.Y)
	pool, err := amm.CreateRangedPool(x, y, minP, maxP, ini)
	if err != nil {
		r.Class("create-rejected")
		return
	}
	rx, ry := pool.Balances()
	if rx.GT(x) || ry.GT(y) {
		r.Fail(t, "C06.ranged-create-within-offer", "create", c, "pool takes (%s,%s) of offered (%s,%s)", rx, ry, x, y)
	}
	if pool.IsDepleted() {
		r.Class("depleted-at-create")
		return
	}
	// the keeper rejects pools smaller than the minimum initial deposit; tiny
	// reserves make the 18-decimal price meaningless, keep >= 100 per present coin
	if (rx.IsPositive() && rx.LT(amm.MinCoinAmount)) || (ry.IsPositive() && ry.LT(amm.MinCoinAmount)) {
		r.Class("below-min-coin")
		return
	}
	c06PriceInRange(t, r, c, pool, "create")
	swaps := 0
	ps := pool.PoolCoinSupply()
	for _, idx := range c.Swaps {
		// the pool quotes a ladder of orders inside its range; fill a prefix of one side
		// as in keeper.Match: the ladder spans the price limits around the last price
		lo, hi := liqtypes.PriceLimits(pool.Price(), sdkmath.LegacyMustNewDecFromStr("0.1"), c.Prec)
		orders := amm.PoolOrders(pool, simpleOrderer{}, lo, hi, c.Prec)
		if len(orders) == 0 {
			break
		}
		side := amm.Buy
		if idx%2 == 1 {
			side = amm.Sell
		}
		k := idx/2%6 + 1
		rx, ry = pool.Balances()
		filled := 0
		for _, o := range orders {
			if o.GetDirection() != side || filled >= k {
				continue
			}
			filled++
			if side == amm.Buy { // pool buys base: pays quote (ceil), receives base
				rx = rx.Sub(o.GetOfferCoinAmount())
				ry = ry.Add(o.GetAmount())
			} else { // pool sells base: pays base, receives quote (floor)
				ry = ry.Sub(o.GetAmount())
				rx = rx.Add(o.GetPrice().MulInt(o.GetAmount()).TruncateInt())
			}
		}
		if filled == 0 {
			continue
		}
		if rx.IsNegative() || ry.IsNegative() {
			r.Fail(t, "C06.ranged-orders-within-reserves", "swap", c, "pool orders exceed reserves: (%s,%s)", rx, ry)
		}
		swaps++
		pool = amm.NewRangedPool(rx, ry, ps, minP, maxP)
		c06PriceInRange(t, r, c, pool, "swap")
	}
	if swaps >= 1 {
		r.NonTrivial(c)
	} else {
		r.Class("no-swap")
	}
}

func TestC06_ranged(t *testing.T) {
	r := rec.New("C06", "ranged")
	t.Cleanup(r.Flush)
	rapid.Check(t, func(rt *rapid.T) {
		r.Guard(func() {
			r.Eval()
			// min price log-uniform, max = min*(1+gap), initial inside incl. both ends
			e := rapid.SampledFrom([]int{-12, -10, -9, -8, -7, -6, -5, -4, -3, -2, -1, 0, 0, 1, 2, 3, 4, 5, 6, 7, 8, 11, 15}).Draw(rt, "e")
			m := rapid.Int64Range(1000, 9999).Draw(rt, "m")
			var minP sdkmath.LegacyDec
			if e >= 0 {
				minP = sdkmath.LegacyNewDec(m).MulInt(pow10Int(e)).QuoInt64(1000)
			} else {
				minP = sdkmath.LegacyNewDec(m).QuoInt(pow10Int(-e)).QuoInt64(1000)
			}
			gap := rapid.SampledFrom([]string{"0.001", "0.0011", "0.01", "0.1", "0.5", "1", "3", "100", "10000"}).Draw(rt, "gap")
			maxP := minP.Mul(sdkmath.LegacyOneDec().Add(sdkmath.LegacyMustNewDecFromStr(gap)))
			var ini sdkmath.LegacyDec
			switch rapid.IntRange(0, 5).Draw(rt, "inik") {
			case 0:
				ini = minP
			case 1:
				ini = maxP
			default:
				f := rapid.Int64Range(1, 999).Draw(rt, "inif")
				ini = minP.Add(maxP.Sub(minP).MulInt64(f).QuoInt64(1000))
			}
			c := c06Ranged{X: genMag(rt, "x", 30).AddRaw(100).String(), Y: genMag(rt, "y", 30).AddRaw(100).String(),
				Min: minP.String(), Max: maxP.String(), Ini: ini.String(), Prec: rapid.IntRange(1, 4).Draw(rt, "prec")}
			n := rapid.IntRange(0, 5).Draw(rt, "nswaps")
			for i := 0; i < n; i++ {
				c.Swaps = append(c.Swaps, rapid.IntRange(0, 11).Draw(rt, fmt.Sprintf("sw%d", i)))
			}
			c06RunRanged(rt, r, c)
		})
	})
}

func init() {
	replayers["C06.shares"] = func(t *testing.T, r *rec.Rec, raw json.RawMessage) {
		var probe map[string]json.RawMessage
		_ = json.Unmarshal(raw, &probe)
		if _, ok := probe["Pc"]; ok {
			var c c06Wd
			_ = json.Unmarshal(raw, &c)
			c06CheckWithdraw(t, r, c)
			return
		}
		var c c06Dep
		_ = json.Unmarshal(raw, &c)
		c06CheckDeposit(t, r, c)
	}
	replayers["C06.exhaustive"] = replayers["C06.shares"]
	replayers["C06.sequences"] = func(t *testing.T, r *rec.Rec, raw json.RawMessage) {
		var c c06Seq
		_ = json.Unmarshal(raw, &c)
		c06RunSeq(t, r, c)
	}
	replayers["C06.ranged"] = func(t *testing.T, r *rec.Rec, raw json.RawMessage) {
		var c c06Ranged
		_ = json.Unmarshal(raw, &c)
		c06RunRanged(t, r, c)
	}
}
