package checks

import (
	"os"
	"testing"

	"verif/world"
)

// TestMain removes the per-process application home directory (wasm cache) the fixture creates under TMPDIR.
func TestMain(m *testing.M) {
	code := m.Run()
	world.CleanupHome()
	os.Exit(code)
}
