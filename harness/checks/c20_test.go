package checks

// C20 — genesis export / re-import. A generated workload brings a chain into a
// state with live positions in the DeFi modules; the application state is
// exported the way `comdex export` does, a fresh application is initialised
// from it, and (1) every persistent store of the DeFi modules must be
// byte-identical, key by key, (2) a continuation workload applied to both
// chains must yield the same transaction results (codes, gas, events — which
// carry the newly assigned ids), balances and stores.

import (
	"bytes"
	"encoding/binary"
	"encoding/json"
	"fmt"
	chain "github.com/comdex-official/comdex/app"
	sdk "github.com/cosmos/cosmos-sdk/types"
	"os"
	"regexp"
	"testing"
	"time"

	"pgregory.net/rapid"

	collectortypes "github.com/comdex-official/comdex/x/collector/types"
	"verif/dump"

	"verif/rec"
	"verif/world"
)

// the stores of the DeFi modules (everything the property speaks about)
var c20Stores = map[string]bool{"vaultV1": true, "lockerV1": true, "lendV2": true, "collectorV1": true, "liquidationV1": true, "liquidationsV2": true,
	"auctionV1": true, "auctionsV2": true, "rewardsV1": true, "liquidityV1": true, "marketV1": true, "assetv1": true, "esmV1": true, "tokenmint": true, "bandoracleV1": true}

type c20Case struct {
	Kind   string  `json:"kind"`
	V      *vCase  `json:"v,omitempty"`
	L      *lCase  `json:"l,omitempty"`
	Cont   []vOp   `json:"continuation,omitempty"`
	LCont  []lOp   `json:"l_continuation,omitempty"`
	Ld     *ldCase `json:"lend,omitempty"`
	LdCont []ldOp  `json:"lend_continuation,omitempty"`
}

// id counters without a genesis field: "store/counter key prefix" -> key prefix of the records the ids belong to
var c20IDCounters = map[string]byte{"vaultV1/15": 0x10, "vaultV1/16": 0x14, "lockerV1/17": 0x15, "lendV2/16": 0x15, "lendV2/25": 0x26}

func c20Diff(t rec.TB, r *rec.Rec, cs *c20Case, a, b dump.State, when string) (hit map[string]bool) {
	hit = map[string]bool{}
	seen := map[string]bool{}
	for _, ch := range dump.Diff(a, b) {
		if !c20Stores[ch.Store] {
			continue
		}
		p := "empty"
		if len(ch.Key) > 0 {
			p = fmt.Sprintf("%02x", ch.Key[0])
		}
		kind := "changed"
		if ch.A == nil {
			kind = "added"
		} else if ch.B == nil {
			kind = "lost"
		}
		if ch.Store == "liquidityV1" && (p == "a0" || p == "a1") && kind == "added" {
			continue // import writes a zero "last pair/pool id" for apps that never had one; reading a missing key gives 0 as well
		}
		ctx := ch.Store + "/" + p + "/" + kind
		if ch.Store == "lockerV1" && p == "17" && kind == "lost" {
			// the locker id counter: with lockers in the export it must come back (fix 05e1c23); with none left
			// the genesis format has nothing to derive it from (finding C20-F6)
			lockers := false
			for _, kv := range a {
				if kv.Store == "lockerV1" && len(kv.Key) > 0 && kv.Key[0] == 0x15 {
					lockers = true
				}
			}
			if !lockers {
				ctx += "-no-locker-left"
			}
		}
		if rp, ok := c20IDCounters[ch.Store+"/"+p]; ok && kind == "changed" {
			// an id counter for which the genesis format has no field: InitGenesis restarts it at the highest id among
			// the exported records of that kind (findings C20-F4, F6, F7: the counter falls back when the highest-numbered
			// record had been removed); any other value after the import is something else
			var maxLive uint64
			for _, kv := range a {
				if kv.Store == ch.Store && len(kv.Key) == 9 && kv.Key[0] == rp {
					if id := binary.BigEndian.Uint64(kv.Key[1:]); id > maxLive {
						maxLive = id
					}
				}
			}
			var got uint64
			if len(ch.B) >= 2 && ch.B[0] == 0x08 {
				got, _ = binary.Uvarint(ch.B[1:])
			}
			if got == maxLive {
				ctx += "-to-highest-live-id"
			}
		}
		if ch.Store == "collectorV1" && p == "01" && kind == "changed" {
			// finding C20-F3: the import rebuilds a lookup-table record without its block height and block time; a record
			// that differs in anything else is something else
			var ra, rb collectortypes.CollectorLookupTableData
			if ra.Unmarshal(ch.A) == nil && rb.Unmarshal(ch.B) == nil {
				ra.BlockHeight, ra.BlockTime = rb.BlockHeight, rb.BlockTime
				x, _ := ra.Marshal()
				y, _ := rb.Marshal()
				if bytes.Equal(x, y) {
					ctx += "-block-height-and-time-only"
				}
			}
		}
		if seen[ctx] {
			continue
		}
		seen[ctx] = true
		if os.Getenv("VERIF_C20_SURVEY") != "" {
			r.Class("diff:" + when[:12] + ":" + ctx)
			continue
		}
		if r.FailSoft(t, "C20.store-identical-after-round-trip", ctx, cs, "%s: %s", when, ch.String()) {
			if id, ok := rec.MatchKnown("C20", "C20.store-identical-after-round-trip", ctx); ok {
				hit[id] = true
			}
		}
	}
	return hit
}

// findings whose lost / changed records change what later transactions and blocks do in a given
// world; when one of them was hit at import time the continuation is not compared (its
// differences would be consequences of that recorded finding)
var c20Cascade = map[string][]string{
	"liquidity":   {},
	"vault-plain": {"C20-F4"},
	"vault":       {"C20-F3", "C20-F4", "C20-F6"},
	"vault-liq":   {"C20-F1", "C20-F2", "C20-F3", "C20-F4", "C20-F6"},
	"lend":        {"C20-F7"},
	"lend-liq":    {"C20-F1", "C20-F2", "C20-F7"},
}

func c20AssertContinuation(r *rec.Rec, kind string, hit map[string]bool) bool {
	for _, id := range c20Cascade[kind] {
		if hit[id] {
			r.Class("continuation-not-compared-after-" + id)
			return false
		}
	}
	r.Class("continuation-compared:" + kind)
	return true
}

func c20Import(t rec.TB, r *rec.Rec, cs *c20Case, seed uint64, nacc int, from *world.Chain) (*world.Chain, dump.State, map[string]bool) {
	gs, h, err := from.Export()
	if err != nil {
		r.Fail(t, "C20.export-succeeds", cs.Kind, cs, "export failed: %v", err)
	}
	orig := dump.Take(from.App, from.Ctx)
	var c2 *world.Chain
	var imported dump.State
	flag := from.App.BandoracleKeeper.GetOracleValidationResult(from.Ctx)
	func() {
		defer func() {
			if x := recover(); x != nil {
				r.Fail(t, "C20.import-succeeds", cs.Kind, cs, "InitChain from the exported state panicked: %v", x)
			}
		}()
		c2 = world.NewChain(world.Options{Seed: seed, NumAccs: nacc, Genesis: gs, GenTime: from.Time, InitialH: h - 1, NoFirstBlock: true,
			PostInit: func(ctx sdk.Context, app *chain.App) {
				imported = dump.Take(app, ctx)
				// the band-oracle validation flag is not part of the exported genesis (reported through the
				// dump taken above); it is restored here so that the continuation is not dominated by it
				app.BandoracleKeeper.SetOracleValidationResult(ctx, flag)
			}})
	}()
	hit := c20Diff(t, r, cs, orig, imported, "right after import")
	return c2, orig, hit
}

func TestC20_roundtrip(t *testing.T) {
	r := rec.New("C20", "roundtrip")
	t.Cleanup(r.Flush)
	rapid.Check(t, func(rt *rapid.T) {
		r.Guard(func() {
			r.Eval()
			cs := &c20Case{Kind: rapid.SampledFrom([]string{"vault-plain", "vault", "vault-liq", "liquidity", "liquidity", "lend", "lend-liq"}).Draw(rt, "kind")}
			nonEmpty := 0
			switch cs.Kind {
			case "vault-plain", "vault", "vault-liq":
				flav := "C13"
				if cs.Kind == "vault-plain" {
					flav = "C01"
				}
				vc := &vCase{Cfg: genVCfg(rt, flav, cs.Kind == "vault-liq")}
				cs.V = vc
				m := newVMachine(rt, r, "C20", vc)
				n := rapid.IntRange(15, 60).Draw(rt, "nops")
				for i := 0; i < n; i++ {
					op := m.genOp(rt, i)
					vc.Ops = append(vc.Ops, op)
					m.apply(i, op)
				}
				c2, orig, hit := c20Import(rt, r, cs, vc.Cfg.Seed, vc.Cfg.NUsers, m.c)
				cmp := c20AssertContinuation(r, cs.Kind, hit)
				nonEmpty = len(orig.PerStoreHash())
				// continuation on both chains
				c20Resume(m.c, c2)
				m2 := m.cloneOn(c2)
				m.c.TxMode, c2.TxMode = true, true
				k := rapid.IntRange(5, 25).Draw(rt, "ncont")
				for i := 0; i < k; i++ {
					op := m.genOp(rt, n+i)
					cs.Cont = append(cs.Cont, op)
					m.apply(n+i, op)
					m2.apply(n+i, op)
					if cmp {
						c20Continuation(rt, r, cs, m.c, c2, n+i, op.K)
					}
				}
			case "lend", "lend-liq":
				lc := &ldCase{Cfg: genLdCfg(rt)}
				if cs.Kind == "lend-liq" {
					lc.Cfg.Liq = genLdLiq(rt)
				}
				cs.Ld = lc
				m := newLdMachine(rt, r, "C20", lc)
				n := rapid.IntRange(15, 60).Draw(rt, "nops")
				for i := 0; i < n; i++ {
					op := m.genOp(rt, i)
					lc.Ops = append(lc.Ops, op)
					m.apply(i, op)
				}
				c2, orig, hit := c20Import(rt, r, cs, lc.Cfg.Seed, lc.Cfg.NUsers+1, m.c)
				cmp := c20AssertContinuation(r, cs.Kind, hit)
				nonEmpty = len(orig.PerStoreHash())
				c20Resume(m.c, c2)
				m2 := m.cloneOn(c2)
				m.c.TxMode, c2.TxMode = true, true
				k := rapid.IntRange(5, 25).Draw(rt, "ncont")
				for i := 0; i < k; i++ {
					op := m.genOp(rt, n+i)
					cs.LdCont = append(cs.LdCont, op)
					m.apply(n+i, op)
					m2.apply(n+i, op)
					if cmp {
						c20Continuation(rt, r, cs, m.c, c2, n+i, op.K)
					}
				}
			default:
				lc := &lCase{Cfg: genLCfg(rt)}
				cs.L = lc
				m := newLMachine(rt, r, "C20", lc)
				n := rapid.IntRange(15, 60).Draw(rt, "nops")
				for i := 0; i < n; i++ {
					op := m.genOp(rt, i)
					lc.Ops = append(lc.Ops, op)
					m.apply(i, op)
				}
				c2, orig, hit := c20Import(rt, r, cs, lc.Cfg.Seed, lNumLP+lNumMM+lMaxTrade, m.c)
				cmp := c20AssertContinuation(r, cs.Kind, hit)
				nonEmpty = len(orig.PerStoreHash())
				c20Resume(m.c, c2)
				m2 := m.cloneOn(c2)
				m.c.TxMode, c2.TxMode = true, true
				k := rapid.IntRange(5, 25).Draw(rt, "ncont")
				for i := 0; i < k; i++ {
					op := m.genOp(rt, n+i)
					cs.LCont = append(cs.LCont, op)
					m.apply(n+i, op)
					m2.apply(n+i, op)
					if cmp {
						c20Continuation(rt, r, cs, m.c, c2, n+i, op.K)
					}
				}
				m.finish()
				m2.finish()
			}
			r.Class("kind:" + cs.Kind)
			if nonEmpty >= 12 {
				r.NonTrivial(cs)
			}
		})
	})
}

// c20Resume opens the next block on both chains. The band-oracle validation flag is
// not part of the exported genesis (known finding C20-F5 when it shows in the diff);
// it is restored by hand on the imported chain so that the continuation can exercise
// price-dependent operations at all.
func c20Resume(a, b *world.Chain) {
	a.NextBlock(5 * time.Second)
	b.NextBlock(5 * time.Second)
}

// c20Continuation compares the two chains after one continuation step.
func c20Continuation(t rec.TB, r *rec.Rec, cs *c20Case, a, b *world.Chain, step int, kind string) {
	la, lb := "", ""
	if len(a.TxTrace) > 0 {
		la = a.TxTrace[len(a.TxTrace)-1]
	}
	if len(b.TxTrace) > 0 {
		lb = b.TxTrace[len(b.TxTrace)-1]
	}
	if os.Getenv("VERIF_C20_SURVEY") != "" {
		if la != lb {
			r.Class("txdiff:" + cs.Kind + ":" + kind)
			if os.Getenv("VERIF_C20_SURVEY") == "2" {
				fmt.Printf("TXDIFF %s %s\n  A: %.700s\n  B: %.700s\n", cs.Kind, kind, la, lb)
			}
		}
		return
	}
	// gas depends on the byte size of every record read, so it follows any (separately reported)
	// difference of the stores; codes, events (with the newly assigned ids) and data are compared
	la, lb = stripGas(la), stripGas(lb)
	if len(a.TxTrace) != len(b.TxTrace) || la != lb {
		r.FailSoft(t, "C20.continuation-same-results", cs.Kind+",after:"+kind, cs, "step %d (%s): transaction result differs: original %.300s / imported %.300s", step, kind, la, lb)
	}
	c20Diff(t, r, cs, dump.Take(a.App, a.Ctx), dump.Take(b.App, b.Ctx), fmt.Sprintf("after continuation step %d (%s)", step, kind))
	// bank balances of every user account
	for i := range a.Accs {
		ba := a.App.BankKeeper.GetAllBalances(a.Ctx, a.Accs[i].Addr)
		bb := b.App.BankKeeper.GetAllBalances(b.Ctx, b.Accs[i].Addr)
		if !ba.IsEqual(bb) {
			r.FailSoft(t, "C20.continuation-same-balances", cs.Kind+",after:"+kind, cs, "step %d (%s): account %d holds %s on the original chain, %s on the imported one", step, kind, i, ba, bb)
		}
	}
}

// cloneOn returns a machine with the same configuration and ids driving another chain.
func (m *vMachine) cloneOn(c *world.Chain) *vMachine {
	n := &vMachine{t: m.t, r: m.r, prop: m.prop, c: c, cs: m.cs, apps: m.apps, unsol: map[string]sdk.Int{}, okKinds: map[string]int{}, usersOn: map[int]map[int]bool{}}
	for k, v := range m.unsol {
		n.unsol[k] = v
	}
	if m.cs.Cfg.Liq != nil {
		n.seized = map[uint64]*seizedVault{}
		n.ledgers = map[uint64]*aucLedger{}
		n.retained = map[string]sdk.Int{}
	}
	return n
}

func (m *ldMachine) cloneOn(c *world.Chain) *ldMachine {
	return &ldMachine{t: m.t, r: m.r, prop: m.prop, c: c, cs: m.cs, k: c.App.LendKeeper, app: m.app, pools: m.pools, pairs: m.pairs, ok: map[string]int{}, unsafeFor: map[uint64]int{}}
}

func (m *lMachine) cloneOn(c *world.Chain) *lMachine {
	n := &lMachine{t: m.t, r: m.r, prop: m.prop, c: c, cs: m.cs, k: c.App.LiquidityKeeper, pools: append([]lPoolRef{}, m.pools...), feeExp: map[string]sdk.Int{}, mmInit: map[string]sdk.Int{}, ok: map[string]int{}, nextTr: m.nextTr}
	for _, o := range m.orders {
		cp := *o
		n.orders = append(n.orders, &cp)
	}
	return n
}

func init() {
	replayers["C20.roundtrip"] = func(t *testing.T, r *rec.Rec, raw json.RawMessage) {
		var cs c20Case
		if err := json.Unmarshal(raw, &cs); err != nil {
			t.Fatal(err)
		}
		r.Eval()
		switch cs.Kind {
		case "vault-plain", "vault", "vault-liq":
			m := newVMachine(t, r, "C20", cs.V)
			for i, op := range cs.V.Ops {
				m.apply(i, op)
			}
			c2, _, hit := c20Import(t, r, &cs, cs.V.Cfg.Seed, cs.V.Cfg.NUsers, m.c)
			cmp := c20AssertContinuation(r, cs.Kind, hit)
			c20Resume(m.c, c2)
			m2 := m.cloneOn(c2)
			m.c.TxMode, c2.TxMode = true, true
			for i, op := range cs.Cont {
				m.apply(len(cs.V.Ops)+i, op)
				m2.apply(len(cs.V.Ops)+i, op)
				if cmp {
					c20Continuation(t, r, &cs, m.c, c2, len(cs.V.Ops)+i, op.K)
				}
			}
		case "lend", "lend-liq":
			m := newLdMachine(t, r, "C20", cs.Ld)
			for i, op := range cs.Ld.Ops {
				m.apply(i, op)
			}
			c2, _, hit := c20Import(t, r, &cs, cs.Ld.Cfg.Seed, cs.Ld.Cfg.NUsers+1, m.c)
			cmp := c20AssertContinuation(r, cs.Kind, hit)
			c20Resume(m.c, c2)
			m2 := m.cloneOn(c2)
			m.c.TxMode, c2.TxMode = true, true
			for i, op := range cs.LdCont {
				m.apply(len(cs.Ld.Ops)+i, op)
				m2.apply(len(cs.Ld.Ops)+i, op)
				if cmp {
					c20Continuation(t, r, &cs, m.c, c2, len(cs.Ld.Ops)+i, op.K)
				}
			}
		default:
			m := newLMachine(t, r, "C20", cs.L)
			for i, op := range cs.L.Ops {
				m.apply(i, op)
			}
			c2, _, hit := c20Import(t, r, &cs, cs.L.Cfg.Seed, lNumLP+lNumMM+lMaxTrade, m.c)
			cmp := c20AssertContinuation(r, cs.Kind, hit)
			c20Resume(m.c, c2)
			m2 := m.cloneOn(c2)
			m.c.TxMode, c2.TxMode = true, true
			for i, op := range cs.LCont {
				m.apply(len(cs.L.Ops)+i, op)
				m2.apply(len(cs.L.Ops)+i, op)
				if cmp {
					c20Continuation(t, r, &cs, m.c, c2, len(cs.L.Ops)+i, op.K)
				}
			}
		}
	}
}

var gasRe = regexp.MustCompile(`gas=[0-9]+/[0-9]+ `)

func stripGas(s string) string { return gasRe.ReplaceAllString(s, "") }
