package checks

// C12, custom contract-to-chain messages. The 20 variants of
// bindings.ComdexMessages are enumerated by reflection (a variant added later
// is picked up without touching this file); payloads are generated field by
// field; every (variant, chain id, sender) combination is dispatched through
// the application's CustomMessenger on a discarded branch of a reachable
// vault-world state. On the main and test networks a sender that is not one of
// that network's designated governance contracts must be refused and the
// branch must stay byte-identical; the designated contracts serve as positive
// control (at least one of them gets past the guard for every variant).

import (
	"encoding/json"
	"fmt"
	"os"
	"reflect"
	"testing"

	wasmkeeper "github.com/CosmWasm/wasmd/x/wasm/keeper"
	wasmvmtypes "github.com/CosmWasm/wasmvm/types"
	sdk "github.com/cosmos/cosmos-sdk/types"
	sdkerrors "github.com/cosmos/cosmos-sdk/types/errors"
	"pgregory.net/rapid"

	"github.com/comdex-official/comdex/app/wasm"
	"github.com/comdex-official/comdex/app/wasm/bindings"

	"verif/dump"
	"verif/rec"
	"verif/world"
)

// the governance contracts of the property statement (app/wasm/message_plugin.go:66-67)
var c12Designated = map[string][]string{
	"comdex-1":     {"comdex17p9rzwnnfxcjp32un9ug7yhhzgtkhvl9jfksztgw5uh69wac2pgs4jg6dx", "comdex1nc5tatafv6eyq7llkr2gv50ff9e22mnf70qgjlv737ktmt4eswrqdfklyz"},
	"comdex-test3": {"comdex1qwlgtx52gsdu7dtp0cekka5zehdl0uj3fhp9acg325fvgs8jdzksjvgq6q", "comdex1ghd753shjuwexxywmgs4xz7x2q732vcnkm6h2pyv9s6ah3hylvrqfy9rd8"},
}

type c12Sender struct {
	Name string
	Addr sdk.AccAddress
}

type c12Dispatch struct {
	Variant string          `json:"variant"`
	Payload json.RawMessage `json:"payload"`
}

type c12CCase struct {
	V          *vCase        `json:"v"`
	Strangers  []string      `json:"strangers"` // hex of generated non-designated contract addresses
	Dispatches []c12Dispatch `json:"dispatches"`
}

type noopMessenger struct{}

func (noopMessenger) DispatchMsg(sdk.Context, sdk.AccAddress, string, wasmvmtypes.CosmosMsg) ([]sdk.Event, [][]byte, error) {
	return nil, nil, fmt.Errorf("verif: fell through to the wrapped messenger")
}

func c12Messenger(c *world.Chain) wasmkeeper.Messenger {
	a := c.App
	return wasm.CustomMessageDecorator(a.LockerKeeper, a.Rewardskeeper, a.AssetKeeper, a.CollectorKeeper, a.LiquidationKeeper,
		a.AuctionKeeper, a.TokenmintKeeper, a.EsmKeeper, a.VaultKeeper, a.LiquidityKeeper)(noopMessenger{})
}

var (
	tyInt  = reflect.TypeOf(sdk.Int{})
	tyDec  = reflect.TypeOf(sdk.Dec{})
	tyCoin = reflect.TypeOf(sdk.Coin{})
	tyAcc  = reflect.TypeOf(sdk.AccAddress{})
)

// c12Fill generates a value for every field of a payload struct. Address-typed fields (the
// payout / burn targets a contract may name) are drawn from `addrs`.
func c12Fill(rt *rapid.T, v reflect.Value, path string, denoms []string, addrs []sdk.AccAddress) {
	switch {
	case v.Type() == tyInt:
		v.Set(reflect.ValueOf(sdk.NewInt(rapid.Int64Range(0, 5_000_000).Draw(rt, path))))
	case v.Type() == tyDec:
		v.Set(reflect.ValueOf(sdk.NewDecWithPrec(rapid.Int64Range(0, 300).Draw(rt, path), 2)))
	case v.Type() == tyCoin:
		v.Set(reflect.ValueOf(sdk.NewInt64Coin(rapid.SampledFrom(denoms).Draw(rt, path+".denom"), rapid.Int64Range(0, 5_000_000).Draw(rt, path+".amt"))))
	case v.Type() == tyAcc:
		v.Set(reflect.ValueOf(addrs[rapid.IntRange(0, len(addrs)-1).Draw(rt, path)]))
	case v.Kind() == reflect.Uint64:
		v.SetUint(rapid.Uint64Range(0, 6).Draw(rt, path))
	case v.Kind() == reflect.Bool:
		v.SetBool(rapid.Bool().Draw(rt, path))
	case v.Kind() == reflect.String:
		if rapid.Bool().Draw(rt, path+".isaddr") {
			v.SetString(addrs[rapid.IntRange(0, len(addrs)-1).Draw(rt, path)].String())
		} else {
			v.SetString(rapid.StringMatching("[A-Z]{1,6}").Draw(rt, path))
		}
	case v.Kind() == reflect.Slice:
		n := rapid.IntRange(0, 3).Draw(rt, path+".len")
		s := reflect.MakeSlice(v.Type(), n, n)
		for i := 0; i < n; i++ {
			c12Fill(rt, s.Index(i), fmt.Sprintf("%s[%d]", path, i), denoms, addrs)
		}
		v.Set(s)
	case v.Kind() == reflect.Struct:
		for i := 0; i < v.NumField(); i++ {
			c12Fill(rt, v.Field(i), path+"."+v.Type().Field(i).Name, denoms, addrs)
		}
	default:
		panic("c12Fill: unhandled payload field type " + v.Type().String() + " at " + path)
	}
}

func c12Variants() []reflect.StructField {
	t := reflect.TypeOf(bindings.ComdexMessages{})
	var out []reflect.StructField
	for i := 0; i < t.NumField(); i++ {
		out = append(out, t.Field(i))
	}
	return out
}

func c12Senders(cs *c12CCase) []c12Sender {
	var out []c12Sender
	for _, chainID := range []string{"comdex-1", "comdex-test3"} {
		for i, a := range c12Designated[chainID] {
			out = append(out, c12Sender{fmt.Sprintf("%s[%d]", chainID, i), sdk.MustAccAddressFromBech32(a)})
		}
	}
	for i, h := range cs.Strangers {
		b, err := sdk.AccAddressFromHexUnsafe(h)
		if err != nil {
			panic(err)
		}
		out = append(out, c12Sender{fmt.Sprintf("stranger[%d]", i), b})
	}
	return out
}

func c12RunDispatches(t rec.TB, r *rec.Rec, cs *c12CCase, c *world.Chain) {
	msgr := c12Messenger(c)
	senders := c12Senders(cs)
	for _, d := range cs.Dispatches {
		custom, _ := json.Marshal(map[string]json.RawMessage{d.Variant: d.Payload})
		roles := map[string][]int{} // per network: which of its designated contracts (by position in the list) get past the guard
		for _, chainID := range []string{"comdex-1", "comdex-test3", "testing"} {
			passed := 0
			for _, s := range senders {
				designated, role := false, -1
				for j, a := range c12Designated[chainID] {
					if a == s.Addr.String() {
						designated, role = true, j
					}
				}
				cctx, _ := c.Ctx.CacheContext()
				cctx = cctx.WithChainID(chainID)
				pre := dump.Take(c.App, cctx)
				var err error
				func() {
					defer func() {
						if p := recover(); p != nil {
							err = fmt.Errorf("panic: %v", p)
							if os.Getenv("VERIF_DEBUG_ERRS") != "" {
								r.Class(fmt.Sprintf("contracts/panic/%s: %.120v", d.Variant, p))
							}
							r.Class("contracts/handler-panic/" + d.Variant)
						}
					}()
					_, _, err = msgr.DispatchMsg(cctx, s.Addr, "", wasmvmtypes.CosmosMsg{Custom: custom})
				}()
				ctxs := fmt.Sprintf("%s chain=%s sender=%s", d.Variant, chainID, s.Name)
				switch {
				case chainID == "testing":
					// no designated contracts outside the main and test networks
				case !designated:
					diff := dump.Diff(pre, dump.Take(c.App, cctx))
					if err == nil {
						r.Fail(t, "C12.contract-message-accepted-from-undesignated-sender", d.Variant+"/"+chainID, cs,
							"%s: accepted (payload %s); %d state changes, first: %s", ctxs, d.Payload, len(diff), firstChange(diff))
					} else if len(diff) != 0 {
						r.Fail(t, "C12.contract-message-refused-but-state-changed", d.Variant+"/"+chainID, cs,
							"%s: refused (%v) but changed state (payload %s): %s", ctxs, err, d.Payload, firstChange(diff))
					}
					r.Class("contracts/refused/" + chainID)
				default:
					if err != sdkerrors.ErrInvalidAddress {
						passed++
						roles[chainID] = append(roles[chainID], role)
						if err == nil {
							r.Class("contracts/designated-executed/" + d.Variant)
						}
					}
				}
			}
			if chainID != "testing" {
				if passed == 0 {
					r.Fail(t, "C12.contract-message-refused-from-every-designated-contract", d.Variant+"/"+chainID, cs,
						"%s on %s: neither designated governance contract gets past the sender guard", d.Variant, chainID)
				}
				r.NonTrivial(d.Variant + "/" + chainID)
			}
		}
		// each message kind is designated to one contract of the network (the governance contract for parameters
		// and white-lists, the locking contract for emissions and surplus funds), the same role on both networks:
		// a handler that lets the network's other contract through, or another role on one network than on the
		// other, accepts the message from a contract that is not designated for it
		m1, t3 := fmt.Sprint(roles["comdex-1"]), fmt.Sprint(roles["comdex-test3"])
		if len(roles["comdex-1"]) > 1 || len(roles["comdex-test3"]) > 1 {
			r.Fail(t, "C12.contract-message-accepted-from-one-designated-contract", d.Variant, cs,
				"%s gets past the sender guard from designated contracts %s on comdex-1 and %s on comdex-test3 (positions in the network's list)", d.Variant, m1, t3)
		} else if m1 != t3 {
			r.Fail(t, "C12.contract-message-same-designated-role-on-both-networks", d.Variant, cs,
				"%s gets past the sender guard from designated contract %s on comdex-1 but %s on comdex-test3 (positions in the network's list)", d.Variant, m1, t3)
		}
	}
}

func firstChange(d []dump.Change) string {
	if len(d) == 0 {
		return "-"
	}
	return d[0].String()
}

func TestC12_contracts(t *testing.T) {
	r := rec.New("C12", "contracts")
	t.Cleanup(r.Flush)
	variants := c12Variants()
	rapid.Check(t, func(rt *rapid.T) {
		r.Guard(func() {
			r.Eval()
			vc := &vCase{Cfg: genVCfg(rt, "C13", true)}
			cs := &c12CCase{V: vc}
			m := newVMachine(rt, r, "C12", vc)
			n := rapid.IntRange(0, 25).Draw(rt, "nops")
			for i := 0; i < n; i++ {
				op := m.genOp(rt, i)
				vc.Ops = append(vc.Ops, op)
				m.apply(i, op)
			}
			for i := 0; i < 2; i++ {
				b := rapid.SliceOfN(rapid.Byte(), 32, 32).Draw(rt, "stranger")
				if i == 1 { // a plain 20-byte account address as well
					b = b[:20]
				}
				cs.Strangers = append(cs.Strangers, fmt.Sprintf("%x", b))
			}
			var addrs []sdk.AccAddress
			for _, s := range c12Senders(cs) {
				addrs = append(addrs, s.Addr)
			}
			addrs = append(addrs, m.c.Accs[0].Addr)
			var denoms []string
			for _, a := range m.c.App.AssetKeeper.GetAssets(m.c.Ctx) {
				denoms = append(denoms, a.Denom)
			}
			// every variant once per case, in a generated order
			for _, vi := range rapid.Permutation(variants).Draw(rt, "order") {
				p := reflect.New(vi.Type.Elem())
				c12Fill(rt, p.Elem(), vi.Name, denoms, addrs)
				raw, err := json.Marshal(p.Interface())
				if err != nil {
					rt.Fatalf("marshal %s: %v", vi.Name, err)
				}
				tag := vi.Tag.Get("json")
				for i := 0; i < len(tag); i++ {
					if tag[i] == ',' {
						tag = tag[:i]
						break
					}
				}
				cs.Dispatches = append(cs.Dispatches, c12Dispatch{Variant: tag, Payload: raw})
			}
			c12RunDispatches(rt, r, cs, m.c)
		})
	})
}

func init() {
	replayers["C12.contracts"] = func(t *testing.T, r *rec.Rec, raw json.RawMessage) {
		var cs c12CCase
		if err := json.Unmarshal(raw, &cs); err != nil {
			t.Fatal(err)
		}
		r.Eval()
		m := newVMachine(t, r, "C12", cs.V)
		for i, op := range cs.V.Ops {
			m.apply(i, op)
		}
		c12RunDispatches(t, r, &cs, m.c)
	}
}
