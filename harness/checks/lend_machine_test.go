package checks

// C08 — lending books balance and borrowing is bounded by loan-to-value.
//
// A lend world in the shape the module's own fixtures use (app "commodo", two
// pools on the "cmdx" and "osmo" module accounts sharing two transit assets,
// same-pool and cross-pool pairs, c-assets) with generated oracle prices and
// rate parameters. rapid drives lend / deposit / withdraw / close-lend /
// borrow (variable and stable) / borrow-alternate / deposit-borrow / draw /
// repay / close-borrow / interest-calculation messages by several users with
// generated time gaps and price moves. After every step the published pool
// totals are re-derived from the positions; after every successful borrow or
// draw the loan-to-value bound is recomputed in exact rationals from the
// oracle prices in force.

import (
	"encoding/json"
	"fmt"
	"math/big"
	"strings"
	"testing"
	"time"

	sdk "github.com/cosmos/cosmos-sdk/types"
	authtypes "github.com/cosmos/cosmos-sdk/x/auth/types"
	"pgregory.net/rapid"

	auctypes "github.com/comdex-official/comdex/x/auctionsV2/types"
	lendkeeper "github.com/comdex-official/comdex/x/lend/keeper"
	lendtypes "github.com/comdex-official/comdex/x/lend/types"
	liqv2types "github.com/comdex-official/comdex/x/liquidationsV2/types"

	"verif/rec"
	"verif/world"
)

type ldAsset struct {
	Price  uint64 `json:"price"`
	Ltv    string `json:"ltv"`
	Stable bool   `json:"stable_borrow"`
	ELtv   string `json:"e_ltv,omitempty"` // loan-to-value of this collateral on e-mode pairs (threshold: + 0.04)
	ID     uint64 `json:"-"`
	CID    uint64 `json:"-"`
}

type ldCfg struct {
	Seed   uint64    `json:"seed"`
	Assets []ldAsset `json:"assets"` // four assets; asset i has denom uasset<i+1> and c-asset ucasset<i+1>
	NUsers int       `json:"n_users"`
	Fund   string    `json:"pool_funding"`
	Res    string    `json:"reserve_funding"`
	Liq    *ldLiq    `json:"liquidation,omitempty"`
	EPairs []int     `json:"e_mode_pairs,omitempty"` // indices into the pair list (18 pairs, in creation order)
}

// ldLiq switches second-generation liquidation of borrows on for the lend app.
type ldLiq struct {
	Batch    uint64 `json:"batch_size"`
	Duration uint64 `json:"auction_duration_seconds"`
	Premium  string `json:"premium"`
	Discount string `json:"discount"`
}

type ldOp struct {
	K      string `json:"k"`
	U      int    `json:"u,omitempty"`
	Pool   int    `json:"pool,omitempty"`  // 0 / 1
	Asset  int    `json:"asset,omitempty"` // asset index
	Pair   int    `json:"pair,omitempty"`  // index into the machine's pair list
	ID     uint64 `json:"id,omitempty"`    // lend or borrow id
	A      string `json:"a,omitempty"`
	B      string `json:"b,omitempty"`
	Stable bool   `json:"stable,omitempty"`
	Dt     int64  `json:"dt,omitempty"`
	Price  uint64 `json:"price,omitempty"`
	Debt   int    `json:"debt,omitempty"` // limit bids: index of the debt asset (Asset is the collateral)
	Prem   int    `json:"prem,omitempty"` // limit bids: premium discount in percent
}

type ldCase struct {
	Cfg ldCfg  `json:"cfg"`
	Ops []ldOp `json:"ops"`
}

type ldMachine struct {
	forced []ldOp // operations to generate next, queued by the generator itself
	t      rec.TB
	r      *rec.Rec
	prop   string
	c      *world.Chain
	cs     *ldCase
	k      lendkeeper.Keeper
	app    uint64
	pools  [2]uint64
	pairs  []lendtypes.Extended_Pair
	ok     map[string]int
	// statistics
	nInter, nStable, nAccrued, nRewarded, nLtvEdge int
	// liquidation
	unsafeFor  map[uint64]int // borrow id -> consecutive sweeps it has been unsafe and not seized
	nSeized    int
	nSeizedX   int // cross-pool
	nNearSafe  int // borrows within 2% below their threshold that survived a sweep
	nAucClosed int
}

func (m *ldMachine) fail(assertion, ctx, f string, a ...interface{}) {
	m.r.Fail(m.t, assertion, ctx, m.cs, f, a...)
}

func ldDenom(i int) string  { return fmt.Sprintf("uasset%d", i+1) }
func ldCDenom(i int) string { return fmt.Sprintf("ucasset%d", i+1) }

var ldModules = [2]string{lendtypes.ModuleAcc1, lendtypes.ModuleAcc3}

func genLdCfg(rt *rapid.T) ldCfg {
	cfg := ldCfg{Seed: uint64(rapid.IntRange(1, 1000).Draw(rt, "seed")), NUsers: rapid.IntRange(2, 3).Draw(rt, "nusers"),
		Fund: rapid.SampledFrom([]string{"0", "10000000000", "1000000000000", "1000000000000"}).Draw(rt, "fund"),
		Res:  rapid.SampledFrom([]string{"0", "1000000000000", "1000000000000"}).Draw(rt, "reserve")}
	for i := 0; i < 4; i++ {
		cfg.Assets = append(cfg.Assets, ldAsset{
			Price:  rapid.SampledFrom([]uint64{1000000, 1000000, 250000, 4000000, 12345678, 999}).Draw(rt, fmt.Sprintf("price%d", i)),
			Ltv:    rapid.SampledFrom([]string{"0.5", "0.6", "0.7", "0.8"}).Draw(rt, fmt.Sprintf("ltv%d", i)),
			Stable: rapid.Bool().Draw(rt, fmt.Sprintf("stable%d", i)),
		})
	}
	if rapid.Bool().Draw(rt, "emode") {
		// governance switched e-mode on for some pairs: their collateral asset's e-mode ratios apply instead
		for i := range cfg.Assets {
			cfg.Assets[i].ELtv = rapid.SampledFrom([]string{"0.85", "0.9", "0.75"}).Draw(rt, fmt.Sprintf("eltv%d", i))
		}
		for j := 0; j < 18; j++ {
			if rapid.IntRange(0, 2).Draw(rt, fmt.Sprintf("epair%d", j)) == 0 {
				cfg.EPairs = append(cfg.EPairs, j)
			}
		}
	}
	return cfg
}

// ldEThr is the distance between the e-mode loan-to-value and the e-mode liquidation threshold.
const ldEThr = "0.04"

// collLtv returns the loan-to-value and liquidation threshold of the pair's collateral asset: the e-mode ones on an e-mode pair.
func (m *ldMachine) collLtv(pair lendtypes.Extended_Pair) (ltv, thr *big.Rat) {
	a := m.cs.Cfg.Assets[m.assetIdx(pair.AssetIn)]
	if pair.IsEModeEnabled && a.ELtv != "" {
		ltv, _ = new(big.Rat).SetString(a.ELtv)
		d, _ := new(big.Rat).SetString(ldEThr)
		return ltv, new(big.Rat).Add(ltv, d)
	}
	ltv, _ = new(big.Rat).SetString(a.Ltv)
	return ltv, new(big.Rat).Add(ltv, big.NewRat(5, 100))
}

func newLdMachine(t rec.TB, r *rec.Rec, prop string, cs *ldCase) *ldMachine {
	m := &ldMachine{t: t, r: r, prop: prop, cs: cs, ok: map[string]int{}, unsafeFor: map[uint64]int{}}
	cfg := &cs.Cfg
	m.c = world.NewChain(world.Options{Seed: cfg.Seed, NumAccs: cfg.NUsers + 1})
	c := m.c
	m.k = c.App.LendKeeper
	c.PrepareDefi()
	dec := sdk.MustNewDecFromStr
	for i := range cfg.Assets {
		a := &cfg.Assets[i]
		a.ID = c.AddAsset("ASSET"+string(rune('A'+i)), ldDenom(i), 6, a.Price, true)
	}
	for i := range cfg.Assets {
		a := &cfg.Assets[i]
		a.CID = c.AddAsset("CASSET"+string(rune('A'+i)), ldCDenom(i), 6, a.Price, false)
	}
	// pool one: asset1 second transit, asset2 main, asset3 first transit; pool two: asset4 main, asset1, asset3 transit
	cap := sdk.NewDec(5000000000000000000)
	data := func(i int, tt uint64) *lendtypes.AssetDataPoolMapping {
		return &lendtypes.AssetDataPoolMapping{AssetID: cfg.Assets[i].ID, AssetTransitType: tt, SupplyCap: cap}
	}
	must := func(err error) {
		if err != nil {
			panic(err)
		}
	}
	must(m.k.AddPoolRecords(c.Ctx, lendtypes.Pool{ModuleName: ldModules[0], CPoolName: "CMDX-ATOM-CMST", AssetData: []*lendtypes.AssetDataPoolMapping{data(0, 3), data(1, 1), data(2, 2)}}))
	must(m.k.AddPoolRecords(c.Ctx, lendtypes.Pool{ModuleName: ldModules[1], CPoolName: "OSMO-ATOM-CMST", AssetData: []*lendtypes.AssetDataPoolMapping{data(3, 1), data(0, 3), data(2, 2)}}))
	for i, p := range m.k.GetPools(c.Ctx) {
		if i < 2 {
			m.pools[i] = p.PoolID
		}
	}
	for i := range cfg.Assets {
		a := cfg.Assets[i]
		ltv := dec(a.Ltv)
		must(m.k.AddAssetRatesParams(c.Ctx, lendtypes.AssetRatesParams{AssetID: a.ID, UOptimal: dec("0.8"), Base: dec("0.002"), Slope1: dec("0.06"), Slope2: dec("0.6"),
			EnableStableBorrow: a.Stable, StableBase: dec("0.04"), StableSlope1: dec("0.04"), StableSlope2: dec("0.06"), Ltv: ltv, LiquidationThreshold: ltv.Add(dec("0.05")),
			LiquidationPenalty: dec("0.05"), LiquidationBonus: dec("0.05"), ReserveFactor: dec("0.1"), CAssetID: a.CID}))
	}
	// pairs: every ordered pair of distinct assets inside a pool, plus cross-pool pairs from an asset of one pool to the main asset of the other
	inPool := [2][]int{{0, 1, 2}, {3, 0, 2}}
	addPair := func(in, out int, inter bool, outPool uint64) uint64 {
		must(m.k.AddLendPairsRecords(c.Ctx, lendtypes.Extended_Pair{AssetIn: cfg.Assets[in].ID, AssetOut: cfg.Assets[out].ID, IsInterPool: inter, AssetOutPoolID: outPool, MinUsdValueLeft: 1000000}))
		ps := m.k.GetLendPairs(c.Ctx)
		return ps[len(ps)-1].Id
	}
	byAssetPool := map[string][]uint64{}
	for pi := 0; pi < 2; pi++ {
		for _, in := range inPool[pi] {
			for _, out := range inPool[pi] {
				if in != out {
					id := addPair(in, out, false, m.pools[pi])
					k := fmt.Sprintf("%d/%d", in, pi)
					byAssetPool[k] = append(byAssetPool[k], id)
				}
			}
		}
	}
	for _, in := range inPool[0] { // pool one -> asset4 of pool two
		id := addPair(in, 3, true, m.pools[1])
		k := fmt.Sprintf("%d/%d", in, 0)
		byAssetPool[k] = append(byAssetPool[k], id)
	}
	for _, in := range inPool[1] { // pool two -> asset2 of pool one
		id := addPair(in, 1, true, m.pools[0])
		k := fmt.Sprintf("%d/%d", in, 1)
		byAssetPool[k] = append(byAssetPool[k], id)
	}
	for pi := 0; pi < 2; pi++ {
		for _, in := range inPool[pi] {
			must(m.k.AddAssetToPair(c.Ctx, lendtypes.AssetToPairMapping{AssetID: cfg.Assets[in].ID, PoolID: m.pools[pi], PairID: byAssetPool[fmt.Sprintf("%d/%d", in, pi)]}))
		}
	}
	m.pairs = m.k.GetLendPairs(c.Ctx)
	if len(cfg.EPairs) > 0 {
		var ep lendtypes.EModePairsForProposal
		for _, j := range cfg.EPairs {
			if j >= len(m.pairs) {
				continue
			}
			e := dec(cfg.Assets[m.assetIdx(m.pairs[j].AssetIn)].ELtv)
			ep.EModePairs = append(ep.EModePairs, lendtypes.EModePairs{PairID: m.pairs[j].Id, ELtv: e, ELiquidationThreshold: e.Add(dec(ldEThr)), ELiquidationPenalty: dec("0.02")})
		}
		must(m.k.AddEModePairs(c.Ctx, ep))
		m.pairs = m.k.GetLendPairs(c.Ctx)
	}
	m.app = c.AddApp(lendtypes.AppName)
	c.AddApp("cswap")
	for _, u := range c.Accs {
		coins := sdk.NewCoins()
		for i := range cfg.Assets {
			coins = coins.Add(sdk.NewCoin(ldDenom(i), world.Pow10(18)))
		}
		c.Fund(u.Addr, coins)
	}
	if fund := mustInt(cfg.Fund); fund.IsPositive() {
		funder := c.Accs[cfg.NUsers].Addr.String()
		for pi := 0; pi < 2; pi++ {
			for _, ai := range inPool[pi] {
				if _, err := c.Deliver(lendtypes.NewMsgFundModuleAccounts(m.pools[pi], cfg.Assets[ai].ID, funder, sdk.NewCoin(ldDenom(ai), fund))); err != nil {
					panic(fmt.Errorf("fund module: %w", err))
				}
			}
		}
	}
	if l := cfg.Liq; l != nil {
		c.App.NewliqKeeper.SetParams(c.Ctx, liqv2types.Params{LiquidationBatchSize: l.Batch})
		c.App.NewaucKeeper.SetAuctionParams(c.Ctx, auctypes.AuctionParams{AuctionDurationSeconds: l.Duration, Step: sdk.MustNewDecFromStr("0.1"),
			WithdrawalFee: sdk.MustNewDecFromStr("0.0"), ClosingFee: sdk.MustNewDecFromStr("0.0"), MinUsdValueLeft: 100000, BidFactor: sdk.MustNewDecFromStr("0.01"),
			LiquidationPenalty: sdk.MustNewDecFromStr("0.1"), AuctionBonus: sdk.MustNewDecFromStr("0.05")})
		must(c.App.NewliqKeeper.WhitelistLiquidation(c.Ctx, liqv2types.LiquidationWhiteListing{AppId: m.app, Initiator: true, IsDutchActivated: true,
			DutchAuctionParam:  &liqv2types.DutchAuctionParam{Premium: sdk.MustNewDecFromStr(l.Premium), Discount: sdk.MustNewDecFromStr(l.Discount), DecrementFactor: sdk.NewInt(1)},
			IsEnglishActivated: false, EnglishAuctionParam: &liqv2types.EnglishAuctionParam{DecrementFactor: sdk.NewInt(1)}, KeeeperIncentive: sdk.MustNewDecFromStr("0.0")}))
	}
	if cfg.Res != "" {
		if res := mustInt(cfg.Res); res.IsPositive() {
			funder := c.Accs[cfg.NUsers].Addr.String()
			for ai := range cfg.Assets {
				if _, err := c.Deliver(lendtypes.NewMsgFundReserveAccounts(cfg.Assets[ai].ID, funder, sdk.NewCoin(ldDenom(ai), res))); err != nil {
					panic(fmt.Errorf("fund reserve: %w", err))
				}
			}
		}
	}
	c.NextBlock(5 * time.Second)
	return m
}

func (m *ldMachine) assetIdx(id uint64) int {
	for i, a := range m.cs.Cfg.Assets {
		if a.ID == id {
			return i
		}
	}
	return -1
}

func (m *ldMachine) userIdx(addr string) int {
	for i, a := range m.c.Accs {
		if a.Addr.String() == addr {
			return i
		}
	}
	return -1
}

func (m *ldMachine) pairByID(id uint64) lendtypes.Extended_Pair {
	for _, p := range m.pairs {
		if p.Id == id {
			return p
		}
	}
	return lendtypes.Extended_Pair{}
}

// ---- generation ----

func (m *ldMachine) genOp(rt *rapid.T, i int) ldOp {
	c, cfg := m.c, &m.cs.Cfg
	if len(m.forced) > 0 {
		// the follow-up an earlier generated operation asked for
		op := m.forced[0]
		m.forced = m.forced[1:]
		return op
	}
	lbl := func(s string) string { return fmt.Sprintf("%s_%d", s, i) }
	lends := m.k.GetAllLend(c.Ctx)
	borrows := m.k.GetAllBorrow(c.Ctx)
	kinds := []string{"lend", "lend", "borrow", "borrow", "borrow", "borrow", "borrow", "borrowalt", "deposit", "withdraw", "withdraw", "closelend", "depositborrow", "draw", "draw", "draw", "repay", "repay", "closeborrow", "calc", "block", "block", "block", "price", "fundmod"}
	// steer towards the states that matter: interest waiting to be repaid (repaying it funds the lenders' rewards),
	// and lend positions that were credited with rewards (available-to-borrow above principal)
	var rewarded []lendtypes.LendAsset
	for _, l := range lends {
		if l.AvailableToBorrow.GT(l.AmountIn.Amount) && l.AmountIn.Amount.IsPositive() {
			rewarded = append(rewarded, l)
		}
	}
	if len(rewarded) > 0 && rapid.IntRange(0, 3).Draw(rt, lbl("onrewarded")) == 0 {
		l := rewarded[rapid.IntRange(0, len(rewarded)-1).Draw(rt, lbl("rewarded"))]
		span := l.AvailableToBorrow.Sub(l.AmountIn.Amount)
		a := l.AmountIn.Amount.Add(span.MulRaw(rapid.Int64Range(0, 4).Draw(rt, lbl("frac"))).QuoRaw(4)).AddRaw(rapid.Int64Range(-1, 1).Draw(rt, lbl("d")))
		return ldOp{K: "withdraw", U: m.userIdx(l.Owner), ID: l.ID, A: clampPos(a).String()}
	}
	for _, b := range borrows {
		if b.InterestAccumulated.GTE(sdk.OneDec()) && !b.IsLiquidated && rapid.IntRange(0, 3).Draw(rt, lbl("payinterest")) == 0 {
			if l, lok := m.k.GetLend(c.Ctx, b.LendingID); lok && m.userIdx(l.Owner) >= 0 {
				return ldOp{K: "repay", U: m.userIdx(l.Owner), ID: b.ID, A: b.InterestAccumulated.TruncateInt().String()}
			}
		}
	}
	if len(borrows) > 0 && len(lends) > 0 && rapid.IntRange(0, 5).Draw(rt, lbl("touchlend")) == 0 {
		// an interaction of a lender credits its rewards
		l := lends[rapid.IntRange(0, len(lends)-1).Draw(rt, lbl("lender"))]
		return ldOp{K: "calc", U: m.userIdx(l.Owner)}
	}
	if cfg.Liq != nil {
		// while a borrow is beyond its threshold keep the sweeps coming: liveness is about consecutive blocks
		for _, b := range borrows {
			if b.IsLiquidated {
				continue
			}
			thr, _ := m.thresholdOf(b)
			if m.ratioOf(b).Cmp(thr) > 0 {
				if rapid.IntRange(0, 2).Draw(rt, lbl("sweep")) > 0 {
					return ldOp{K: "block", Dt: rapid.SampledFrom([]int64{5, 6, 7}).Draw(rt, lbl("dt"))}
				}
				break
			}
		}
		kinds = append(kinds, "crash", "crash", "crash", "block", "block", "liqmsg", "liqmsg", "bid", "bid", "bid")
		if m.prop == "C10" {
			kinds = append(kinds, "bid", "bid", "bid", "bid", "bid", "crash", "liqmsg")
		}
		// limit bids, executed automatically by the auction hook when an auction posts their discount
		kinds = append(kinds, "lbdep")
		if len(c.App.NewaucKeeper.GetAuctions(c.Ctx)) > 0 {
			kinds = append(kinds, "lbdep", "lbdep", "lbdep", "block", "block")
		}
		if len(m.limitBids()) > 0 {
			kinds = append(kinds, "lbcancel")
		}
	}
	k := rapid.SampledFrom(kinds).Draw(rt, lbl("kind"))
	if cfg.Liq != nil && len(c.App.NewaucKeeper.GetAuctions(c.Ctx)) > 0 {
		// while auctions run, bring them to an end often: by automatic limit bids and by market bids
		switch rapid.IntRange(0, 5).Draw(rt, lbl("limitnow")) {
		case 0:
			k = "lbdep"
		case 1:
			k = "bid"
		}
	}
	op := ldOp{K: k}
	switch k {
	case "crash":
		// move a price so that some borrow ends near or beyond its liquidation threshold
		op.K = "price"
		if len(borrows) == 0 {
			return ldOp{K: "block", Dt: 5}
		}
		b := borrows[rapid.IntRange(0, len(borrows)-1).Draw(rt, lbl("victim"))]
		pair := m.pairByID(b.PairID)
		op.Asset = m.assetIdx(pair.AssetIn)
		tw, _ := c.App.MarketKeeper.GetTwa(c.Ctx, cfg.Assets[op.Asset].ID)
		thr, _ := m.thresholdOf(b)
		ratio := m.ratioOf(b)
		// the collateral price at which ratio == threshold is price*ratio/threshold; land within -3% .. +3% of it, or far beyond
		edge := new(big.Rat).Mul(new(big.Rat).SetUint64(tw.Twa), new(big.Rat).Quo(ratio, thr))
		pm := rapid.SampledFrom([]int64{970, 990, 999, 1000, 1001, 1010, 1030, 700}).Draw(rt, lbl("permille"))
		edge.Mul(edge, big.NewRat(pm, 1000))
		f, _ := edge.Float64()
		op.Price = uint64(f) + uint64(rapid.IntRange(0, 1).Draw(rt, lbl("d")))
		if op.Price == 0 {
			op.Price = 1
		}
		return op
	case "liqmsg":
		if len(borrows) == 0 {
			return ldOp{K: "block", Dt: 5}
		}
		op.U = rapid.IntRange(0, cfg.NUsers-1).Draw(rt, lbl("user"))
		op.ID = borrows[rapid.IntRange(0, len(borrows)-1).Draw(rt, lbl("borrow"))].ID
		return op
	case "lbdep":
		op.U = rapid.IntRange(0, cfg.NUsers-1).Draw(rt, lbl("user"))
		as := c.App.NewaucKeeper.GetAuctions(c.Ctx)
		if len(as) > 0 && rapid.IntRange(0, 3).Draw(rt, lbl("rel")) > 0 {
			// relative to a live auction: its asset pair, the discount it posts now or shortly, its remaining debt
			a := as[rapid.IntRange(0, len(as)-1).Draw(rt, lbl("auction"))]
			op.Asset, op.Debt = m.assetIdx(a.CollateralAssetId), m.assetIdx(a.DebtAssetId)
			cur := int64(0)
			if a.CollateralTokenOraclePrice.IsPositive() && a.CollateralTokenOraclePrice.GT(a.CollateralTokenAuctionPrice) {
				cur = a.CollateralTokenOraclePrice.Sub(a.CollateralTokenAuctionPrice).Quo(a.CollateralTokenOraclePrice).MulInt64(100).TruncateInt64()
			}
			cur += int64(rapid.IntRange(0, 3).Draw(rt, lbl("relprem")))
			if cur > 30 {
				cur = 30
			}
			op.Prem = int(cur)
			d := int64(cfg.Liq.Duration)
			dt := rapid.SampledFrom([]int64{0, 5, 6, d / 10, d / 5, d / 3, d / 2, d * 4 / 5}).Draw(rt, lbl("reldt"))
			if tw, ok := c.App.MarketKeeper.GetTwa(c.Ctx, a.CollateralAssetId); ok && dt > 0 {
				if pm, ok := premiumAfter(a, c.Ctx.BlockTime(), dt, tw.Twa, cfg.Liq.Duration, sdk.MustNewDecFromStr(cfg.Liq.Discount)); ok {
					op.Prem = int(pm)
					m.forced = append(m.forced, ldOp{K: "block", Dt: dt})
				}
			}
			switch rapid.IntRange(0, 3).Draw(rt, lbl("amtk")) {
			case 0:
				op.A = clampPos(a.DebtToken.Amount.AddRaw(rapid.Int64Range(-1, 1).Draw(rt, lbl("d")))).String()
			case 1:
				op.A = clampPos(a.DebtToken.Amount.QuoRaw(rapid.Int64Range(2, 5).Draw(rt, lbl("div")))).String()
			case 2:
				op.A = a.DebtToken.Amount.MulRaw(3).String()
			default:
				op.A = rapid.SampledFrom([]string{"10", "1000000", "250000000"}).Draw(rt, lbl("amt"))
			}
			return op
		}
		op.Asset = rapid.IntRange(0, 3).Draw(rt, lbl("asset"))
		op.Debt = rapid.IntRange(0, 3).Draw(rt, lbl("debt"))
		op.Prem = rapid.SampledFrom([]int{0, 1, 2, 5, 10, 30}).Draw(rt, lbl("prem"))
		op.A = rapid.SampledFrom([]string{"10", "1000000", "250000000", "40000000000"}).Draw(rt, lbl("amt"))
		return op
	case "lbcancel":
		lbs := m.limitBids()
		if len(lbs) == 0 {
			return ldOp{K: "block", Dt: 6}
		}
		lb := lbs[rapid.IntRange(0, len(lbs)-1).Draw(rt, lbl("limitbid"))]
		op.U = m.userIdx(lb.BidderAddress)
		op.Asset, op.Debt, op.Prem = m.assetIdx(lb.CollateralTokenId), m.assetIdx(lb.DebtTokenId), int(lb.PremiumDiscount.Int64())
		return op
	case "bid":
		as := c.App.NewaucKeeper.GetAuctions(c.Ctx)
		if len(as) == 0 {
			return ldOp{K: "block", Dt: 6}
		}
		a := as[rapid.IntRange(0, len(as)-1).Draw(rt, lbl("auction"))]
		op.U = rapid.IntRange(0, cfg.NUsers-1).Draw(rt, lbl("user"))
		op.ID = a.AuctionId
		switch rapid.IntRange(0, 3).Draw(rt, lbl("bk")) {
		case 0:
			op.A = clampPos(a.DebtToken.Amount.QuoRaw(3)).String()
		case 1:
			op.A = clampPos(a.DebtToken.Amount.AddRaw(rapid.Int64Range(-1, 1).Draw(rt, lbl("d")))).String()
		default:
			op.A = a.DebtToken.Amount.MulRaw(2).String()
		}
		return op
	}
	amounts := []string{"1", "1000000", "5000001", "50000000", "123456789", "1000000000", "1000000000", "999999999999"}
	inPool := [2][]int{{0, 1, 2}, {3, 0, 2}}
	switch k {
	case "block":
		op.Dt = rapid.SampledFrom([]int64{5, 6, 3600, 86400, 30 * 86400, 365 * 86400}).Draw(rt, lbl("dt"))
		if cfg.Liq != nil && len(c.App.NewaucKeeper.GetAuctions(c.Ctx)) > 0 && rapid.Bool().Draw(rt, lbl("withinauction")) {
			// inside the running auctions' price curve instead of beyond their end
			d := int64(cfg.Liq.Duration)
			op.Dt = rapid.SampledFrom([]int64{5, d / 10, d / 5, d / 3, d / 2, d * 4 / 5, d, d + 1}).Draw(rt, lbl("dtrel"))
		}
		return op
	case "price":
		op.Asset = rapid.IntRange(0, 3).Draw(rt, lbl("asset"))
		tw, _ := c.App.MarketKeeper.GetTwa(c.Ctx, cfg.Assets[op.Asset].ID)
		f := rapid.SampledFrom([]uint64{50, 80, 95, 101, 105, 120, 200}).Draw(rt, lbl("factor"))
		op.Price = tw.Twa*f/100 + 1
		return op
	case "fundmod":
		op.Pool = rapid.IntRange(0, 1).Draw(rt, lbl("pool"))
		op.Asset = rapid.SampledFrom(inPool[op.Pool]).Draw(rt, lbl("asset"))
		op.A = rapid.SampledFrom(amounts).Draw(rt, lbl("amt"))
		return op
	case "lend", "borrowalt":
		op.U = rapid.IntRange(0, cfg.NUsers-1).Draw(rt, lbl("user"))
		op.Pool = rapid.IntRange(0, 1).Draw(rt, lbl("pool"))
		op.Asset = rapid.SampledFrom(inPool[op.Pool]).Draw(rt, lbl("asset"))
		op.A = rapid.SampledFrom(amounts).Draw(rt, lbl("amt"))
		if k == "lend" {
			return op
		}
	}
	delta := func() int64 { return rapid.Int64Range(-2, 2).Draw(rt, lbl("delta")) }
	pickLend := func() (lendtypes.LendAsset, bool) {
		if len(lends) == 0 {
			return lendtypes.LendAsset{}, false
		}
		return lends[rapid.IntRange(0, len(lends)-1).Draw(rt, lbl("lend"))], true
	}
	pickBorrow := func() (lendtypes.BorrowAsset, bool) {
		if len(borrows) == 0 {
			return lendtypes.BorrowAsset{}, false
		}
		return borrows[rapid.IntRange(0, len(borrows)-1).Draw(rt, lbl("borrow"))], true
	}
	// a loan sized against the loan-to-value limit of (collateral, pair): limit * permille/1000 + delta
	loanFor := func(coll sdk.Int, in int, pair lendtypes.Extended_Pair) sdk.Int {
		out := m.assetIdx(pair.AssetOut)
		pin, _ := c.App.MarketKeeper.GetTwa(c.Ctx, cfg.Assets[in].ID)
		pout, _ := c.App.MarketKeeper.GetTwa(c.Ctx, cfg.Assets[out].ID)
		ltv := sdk.MustNewDecFromStr(cfg.Assets[in].Ltv)
		if pair.IsEModeEnabled && cfg.Assets[in].ELtv != "" {
			ltv = sdk.MustNewDecFromStr(cfg.Assets[in].ELtv)
		}
		if pair.IsInterPool {
			ltv = ltv.Mul(sdk.MustNewDecFromStr(cfg.Assets[2].Ltv)) // first transit asset is asset3 in both pools
		}
		if pout.Twa == 0 {
			return sdk.OneInt()
		}
		limit := coll.ToLegacyDec().MulInt64(int64(pin.Twa)).Mul(ltv).QuoInt64(int64(pout.Twa)).TruncateInt()
		pm := rapid.SampledFrom([]int64{100, 500, 900, 999, 1000, 1000, 1000, 1001, 1100}).Draw(rt, lbl("permille"))
		return clampPos(limit.MulRaw(pm).QuoRaw(1000).AddRaw(delta()))
	}
	switch k {
	case "borrowalt":
		var ps []int
		for j, p := range m.pairs {
			if p.AssetIn == cfg.Assets[op.Asset].ID && (p.IsInterPool == (p.AssetOutPoolID != m.pools[op.Pool])) {
				ps = append(ps, j)
			}
		}
		if len(ps) == 0 {
			return ldOp{K: "block", Dt: 5}
		}
		op.Pair = rapid.SampledFrom(ps).Draw(rt, lbl("pair"))
		op.Stable = rapid.IntRange(0, 3).Draw(rt, lbl("stable")) == 0
		op.B = loanFor(mustInt(op.A), op.Asset, m.pairs[op.Pair]).String()
		return op
	case "deposit", "withdraw", "closelend", "borrow":
		l, ok := pickLend()
		if !ok {
			return ldOp{K: "lend", U: 0, Pool: 0, Asset: 1, A: "1000000000"}
		}
		op.ID, op.U = l.ID, m.userIdx(l.Owner)
		if rapid.IntRange(0, 19).Draw(rt, lbl("stray")) == 0 {
			op.U = rapid.IntRange(0, cfg.NUsers-1).Draw(rt, lbl("user"))
		}
		in := m.assetIdx(l.AssetID)
		switch k {
		case "deposit":
			op.A = rapid.SampledFrom(amounts).Draw(rt, lbl("amt"))
		case "withdraw":
			switch rapid.IntRange(0, 5).Draw(rt, lbl("wk")) {
			case 0:
				op.A = clampPos(l.AvailableToBorrow.AddRaw(delta())).String()
			case 1:
				op.A = clampPos(l.AmountIn.Amount.AddRaw(delta())).String()
			case 2:
				// between principal and available (a position credited with rewards)
				op.A = clampPos(l.AmountIn.Amount.Add(l.AvailableToBorrow).QuoRaw(2)).String()
			default:
				op.A = clampPos(l.AvailableToBorrow.QuoRaw(rapid.Int64Range(2, 10).Draw(rt, lbl("div")))).String()
			}
		case "borrow":
			pool := 0
			if l.PoolID == m.pools[1] {
				pool = 1
			}
			var ps []int
			for j, p := range m.pairs {
				if p.AssetIn == l.AssetID && (p.IsInterPool == (p.AssetOutPoolID != m.pools[pool])) {
					ps = append(ps, j)
				}
			}
			if len(ps) == 0 {
				return ldOp{K: "block", Dt: 5}
			}
			op.Pair = rapid.SampledFrom(ps).Draw(rt, lbl("pair"))
			op.Stable = rapid.IntRange(0, 3).Draw(rt, lbl("stable")) == 0
			coll := l.AvailableToBorrow.QuoRaw(rapid.SampledFrom([]int64{1, 1, 2, 3, 10}).Draw(rt, lbl("colldiv")))
			if rapid.IntRange(0, 9).Draw(rt, lbl("over")) == 0 {
				coll = l.AvailableToBorrow.AddRaw(1)
			}
			coll = clampPos(coll)
			op.A = coll.String()
			op.B = loanFor(coll, in, m.pairs[op.Pair]).String()
		}
		return op
	default: // depositborrow, draw, repay, closeborrow, calc
		b, ok := pickBorrow()
		if !ok {
			return ldOp{K: "block", Dt: 3600}
		}
		l, lok := m.k.GetLend(c.Ctx, b.LendingID)
		if !lok || m.userIdx(l.Owner) < 0 {
			// the lend position of a seized borrow can be gone; the borrow then only waits for its auction
			return ldOp{K: "block", Dt: 6}
		}
		op.ID, op.U = b.ID, m.userIdx(l.Owner)
		if rapid.IntRange(0, 19).Draw(rt, lbl("stray")) == 0 {
			op.U = rapid.IntRange(0, cfg.NUsers-1).Draw(rt, lbl("user"))
		}
		pair := m.pairByID(b.PairID)
		in := m.assetIdx(l.AssetID)
		switch k {
		case "depositborrow":
			op.A = clampPos(l.AvailableToBorrow.QuoRaw(rapid.Int64Range(1, 5).Draw(rt, lbl("div")))).String()
		case "draw":
			// room left under the limit, around its edge
			limit := loanFor(b.AmountIn.Amount, in, pair)
			room := limit.Sub(b.AmountOut.Amount).Sub(b.InterestAccumulated.TruncateInt())
			op.A = clampPos(room.AddRaw(delta())).String()
			if rapid.IntRange(0, 3).Draw(rt, lbl("small")) == 0 {
				op.A = clampPos(room.QuoRaw(3)).String()
			}
		case "repay":
			debt := b.AmountOut.Amount.Add(b.InterestAccumulated.TruncateInt())
			switch rapid.IntRange(0, 4).Draw(rt, lbl("rk")) {
			case 0:
				op.A = clampPos(debt.AddRaw(delta())).String()
			case 1:
				op.A = clampPos(b.InterestAccumulated.TruncateInt().AddRaw(delta())).String()
			default:
				op.A = clampPos(debt.QuoRaw(rapid.Int64Range(2, 9).Draw(rt, lbl("div")))).String()
			}
		}
		return op
	}
}

// ---- application ----

// buildMsg builds the message of an operation against the current state (false: the position it names is gone).
func (m *ldMachine) buildMsg(op ldOp) (sdk.Msg, bool) {
	c, cfg := m.c, &m.cs.Cfg
	from := c.Accs[op.U].Addr.String()
	var msg sdk.Msg
	amt := sdk.ZeroInt()
	if op.A != "" {
		amt = mustInt(op.A)
	}
	var bBefore lendtypes.BorrowAsset
	var lBefore lendtypes.LendAsset
	_, _ = bBefore, lBefore
	switch op.K {
	case "fundmod":
		msg = lendtypes.NewMsgFundModuleAccounts(m.pools[op.Pool], cfg.Assets[op.Asset].ID, c.Accs[cfg.NUsers].Addr.String(), sdk.NewCoin(ldDenom(op.Asset), amt))
	case "lend":
		msg = lendtypes.NewMsgLend(from, cfg.Assets[op.Asset].ID, sdk.NewCoin(ldDenom(op.Asset), amt), m.pools[op.Pool], m.app)
	case "deposit", "withdraw":
		lBefore, _ = m.k.GetLend(c.Ctx, op.ID)
		ai := m.assetIdx(lBefore.AssetID)
		if ai < 0 {
			return nil, false
		}
		if op.K == "deposit" {
			msg = lendtypes.NewMsgDeposit(from, op.ID, sdk.NewCoin(ldDenom(ai), amt))
		} else {
			msg = lendtypes.NewMsgWithdraw(from, op.ID, sdk.NewCoin(ldDenom(ai), amt))
		}
	case "closelend":
		lBefore, _ = m.k.GetLend(c.Ctx, op.ID)
		msg = lendtypes.NewMsgCloseLend(from, op.ID)
	case "borrow":
		lBefore, _ = m.k.GetLend(c.Ctx, op.ID)
		p := m.pairs[op.Pair]
		msg = lendtypes.NewMsgBorrow(from, op.ID, p.Id, op.Stable, sdk.NewCoin(ldCDenom(m.assetIdx(p.AssetIn)), amt), sdk.NewCoin(ldDenom(m.assetIdx(p.AssetOut)), mustInt(op.B)))
	case "borrowalt":
		p := m.pairs[op.Pair]
		msg = lendtypes.NewMsgBorrowAlternate(from, cfg.Assets[op.Asset].ID, m.pools[op.Pool], sdk.NewCoin(ldDenom(op.Asset), amt), p.Id, op.Stable, sdk.NewCoin(ldDenom(m.assetIdx(p.AssetOut)), mustInt(op.B)), m.app)
	case "depositborrow", "draw", "repay", "closeborrow":
		var found bool
		bBefore, found = m.k.GetBorrow(c.Ctx, op.ID)
		if !found {
			return nil, false
		}
		p := m.pairByID(bBefore.PairID)
		switch op.K {
		case "depositborrow":
			msg = lendtypes.NewMsgDepositBorrow(from, op.ID, sdk.NewCoin(ldCDenom(m.assetIdx(p.AssetIn)), amt))
		case "draw":
			msg = lendtypes.NewMsgDraw(from, op.ID, sdk.NewCoin(ldDenom(m.assetIdx(p.AssetOut)), amt))
		case "repay":
			msg = lendtypes.NewMsgRepay(from, op.ID, sdk.NewCoin(ldDenom(m.assetIdx(p.AssetOut)), amt))
		case "closeborrow":
			msg = lendtypes.NewMsgCloseBorrow(from, op.ID)
		}
	case "calc":
		msg = lendtypes.NewMsgCalculateInterestAndRewards(from)
	case "liqmsg":
		msg = liqv2types.NewMsgLiquidateInternalKeeperRequest(c.Accs[op.U].Addr, 1, op.ID)
	case "bid":
		a, err := c.App.NewaucKeeper.GetAuction(c.Ctx, op.ID)
		if err != nil {
			return nil, false
		}
		msg = auctypes.NewMsgPlaceMarketBid(from, op.ID, sdk.NewCoin(a.DebtToken.Denom, amt))
	case "lbdep":
		msg = auctypes.NewMsgDepositLimitBid(from, cfg.Assets[op.Asset].ID, cfg.Assets[op.Debt].ID, sdk.NewInt(int64(op.Prem)), sdk.NewCoin(ldDenom(op.Debt), amt))
	case "lbcancel":
		msg = auctypes.NewMsgCancelLimitBid(from, cfg.Assets[op.Asset].ID, cfg.Assets[op.Debt].ID, sdk.NewInt(int64(op.Prem)))
	default:
		panic("unknown lend op " + op.K)
	}
	return msg, true
}

func (m *ldMachine) apply(i int, op ldOp) {
	c, cfg := m.c, &m.cs.Cfg
	switch op.K {
	case "block":
		var pre *ldLiqSnap
		if cfg.Liq != nil {
			pre = m.liqSnap()
		}
		limitPre := sdk.ZeroInt()
		if pre != nil && debugErrs {
			for _, a := range c.App.NewaucKeeper.GetAuctions(c.Ctx) {
				if a.CollateralTokenOraclePrice.GT(a.CollateralTokenAuctionPrice) {
					prem := a.CollateralTokenOraclePrice.Sub(a.CollateralTokenAuctionPrice).Quo(a.CollateralTokenOraclePrice).MulInt64(100).TruncateInt()
					if _, ok := c.App.NewaucKeeper.GetUserLimitBidDataByPremium(c.Ctx, a.DebtAssetId, a.CollateralAssetId, prem); ok {
						m.r.Class("dbg:autobid-eligible-before-block")
					} else {
						m.r.Class("dbg:auction-below-oracle-no-bid-at-premium")
					}
				} else {
					m.r.Class("dbg:auction-above-oracle")
				}
			}
		}
		if pre != nil {
			for _, lb := range m.limitBids() {
				limitPre = limitPre.Add(lb.DebtToken.Amount)
			}
		}
		if err := c.NextBlockRecover(time.Duration(op.Dt) * time.Second); err != nil {
			m.fail(m.prop+".block-hook-panic", "block", "step %d: %v", i, err)
		}
		m.ok["block"]++
		if pre != nil {
			m.liqObserveLend(i, op, pre, true)
			limitPost := sdk.ZeroInt()
			for _, lb := range m.limitBids() {
				limitPost = limitPost.Add(lb.DebtToken.Amount)
			}
			if limitPost.LT(limitPre) {
				m.r.Class("autobid:deposits-reduced-in-block")
				if len(c.App.NewaucKeeper.GetAuctions(c.Ctx)) < pre.aucs {
					m.r.Class("autobid:block-also-closes-auction")
				}
			}
		}
		m.invariants(i, op)
		return
	case "price":
		c.SetPrice(cfg.Assets[op.Asset].ID, op.Price, true)
		c.SetPrice(cfg.Assets[op.Asset].CID, op.Price, true)
		m.ok["price"]++
		m.invariants(i, op)
		return
	}
	msg, okMsg := m.buildMsg(op)
	if !okMsg {
		m.invariants(i, op)
		return
	}
	amt := sdk.ZeroInt()
	if op.A != "" {
		amt = mustInt(op.A)
	}
	borrowsBefore := map[uint64]lendtypes.BorrowAsset{}
	for _, b := range m.k.GetAllBorrow(c.Ctx) {
		borrowsBefore[b.ID] = b
	}
	lendsBefore := map[uint64]lendtypes.LendAsset{}
	for _, l := range m.k.GetAllLend(c.Ctx) {
		lendsBefore[l.ID] = l
	}
	var liqPre *ldLiqSnap
	if cfg.Liq != nil && (op.K == "liqmsg" || op.K == "bid") {
		liqPre = m.liqSnap()
	}
	_, err := c.Deliver(msg)
	if liqPre != nil && op.K == "liqmsg" {
		m.liqObserveLend(i, op, liqPre, false)
	}
	if liqPre != nil && op.K == "bid" && err == nil {
		if a := len(c.App.NewaucKeeper.GetAuctions(c.Ctx)); a < liqPre.aucs {
			m.nAucClosed += liqPre.aucs - a
		}
	}
	if err != nil && op.K == "bid" && m.prop == "C10" && strings.HasPrefix(err.Error(), "panic in handler") {
		// the handler gave up half way: a bid that would close the auction can then never be placed, and the auction
		// never ends and distributes what it holds
		m.fail("C10.bid-is-settled-or-refused-cleanly", "lend", "step %d: bid of %s on auction %d by user %d: %v", i, op.A, op.ID, op.U, err)
	}
	if err != nil {
		if debugErrs {
			e := err.Error()
			if j := strings.Index(e, ": "); j >= 0 && j < 40 {
				e = e[j+2:]
			}
			if len(e) > 60 {
				e = e[:60]
			}
			m.r.Class("err:" + op.K + ":" + e)
		}
		m.invariants(i, op)
		return
	}
	m.ok[op.K]++
	// ---- per-operation oracles ----
	switch op.K {
	case "borrow", "borrowalt", "draw", "depositborrow":
		for _, b := range m.k.GetAllBorrow(c.Ctx) {
			was, existed := borrowsBefore[b.ID]
			if existed && was.AmountOut.Equal(b.AmountOut) {
				continue
			}
			// this borrow took a new loan
			m.checkLtv(i, op, b)
			if !existed && b.IsStableBorrow {
				m.nStable++
			}
		}
	case "withdraw":
		// never more than what was available (the rest is pledged)
		if l, ok := lendsBefore[op.ID]; ok {
			avail := l.AvailableToBorrow
			// rewards accrued inside the message add to the available amount first
			if now, still := m.k.GetLend(c.Ctx, op.ID); still {
				avail = now.AvailableToBorrow.Add(amt)
			}
			if amt.GT(avail) {
				m.fail("C08.withdraw-within-available", "withdraw", "step %d: withdrew %s from lend %d with %s available", i, amt, op.ID, avail)
			}
		}
	case "closelend":
		for _, b := range borrowsBefore {
			if b.LendingID == op.ID {
				m.fail("C08.close-lend-with-open-borrow", "closelend", "step %d: lend %d closed while borrow %d (collateral %s) was open", i, op.ID, b.ID, b.AmountIn)
			}
		}
	}
	m.invariants(i, op)
}

// ---- liquidation of borrows (second-generation liquidation module) ----

// thresholdOf returns the liquidation threshold that applies to borrow b: the collateral asset's, times the
// bridged transit asset's for a cross-pool borrow.
func (m *ldMachine) thresholdOf(b lendtypes.BorrowAsset) (*big.Rat, string) {
	cfg := &m.cs.Cfg
	pair := m.pairByID(b.PairID)
	_, thr := m.collLtv(pair)
	kind := "same-pool"
	if pair.IsEModeEnabled {
		kind = "e-mode,same-pool"
	}
	if b.BridgedAssetAmount.Amount.IsPositive() {
		kind = "cross-pool"
		for i := range cfg.Assets {
			if ldDenom(i) == b.BridgedAssetAmount.Denom {
				t, _ := new(big.Rat).SetString(cfg.Assets[i].Ltv)
				t.Add(t, big.NewRat(5, 100))
				thr.Mul(thr, t)
				kind = fmt.Sprintf("cross-pool,transit=asset%d", i+1)
			}
		}
	}
	return thr, kind
}

// ratioOf returns debt value / collateral value of b at the oracle prices in force.
func (m *ldMachine) ratioOf(b lendtypes.BorrowAsset) *big.Rat {
	c, cfg := m.c, &m.cs.Cfg
	pair := m.pairByID(b.PairID)
	pin, _ := c.App.MarketKeeper.GetTwa(c.Ctx, cfg.Assets[m.assetIdx(pair.AssetIn)].ID)
	pout, _ := c.App.MarketKeeper.GetTwa(c.Ctx, cfg.Assets[m.assetIdx(pair.AssetOut)].ID)
	debt := new(big.Rat).SetInt(b.AmountOut.Amount.Add(b.InterestAccumulated.TruncateInt()).BigInt())
	debt.Mul(debt, new(big.Rat).SetUint64(pout.Twa))
	coll := new(big.Rat).Mul(new(big.Rat).SetInt(b.AmountIn.Amount.BigInt()), new(big.Rat).SetUint64(pin.Twa))
	if coll.Sign() == 0 {
		return new(big.Rat).SetInt64(1 << 40)
	}
	return debt.Quo(debt, coll)
}

type ldLiqSnap struct {
	borrows map[uint64]lendtypes.BorrowAsset
	custody map[string]sdk.Int // auction module balance per asset denom
	locked  int
	aucs    int
	bidID   uint64 // id counter of executed bids
}

func (m *ldMachine) liqSnap() *ldLiqSnap {
	c := m.c
	s := &ldLiqSnap{borrows: map[uint64]lendtypes.BorrowAsset{}, custody: map[string]sdk.Int{}}
	for _, b := range m.k.GetAllBorrow(c.Ctx) {
		s.borrows[b.ID] = b
	}
	for i := range m.cs.Cfg.Assets {
		s.custody[ldDenom(i)] = c.ModBal(auctypes.ModuleName, ldDenom(i))
	}
	s.locked = len(c.App.NewliqKeeper.GetLockedVaults(c.Ctx))
	s.aucs = len(c.App.NewaucKeeper.GetAuctions(c.Ctx))
	s.bidID = c.App.NewaucKeeper.GetUserBidID(c.Ctx)
	return s
}

// liqObserve compares the borrows before and after a sweep (block) or a liquidate message.
func (m *ldMachine) liqObserveLend(i int, op ldOp, pre *ldLiqSnap, sweep bool) {
	c := m.c
	if m.prop != "C09" {
		// safety, liveness and exactness of seizures are C09's assertions; other properties that run these histories
		// (C10: custody of the resulting auctions) only keep the statistics
		for _, b := range m.k.GetAllBorrow(c.Ctx) {
			if was, existed := pre.borrows[b.ID]; b.IsLiquidated && existed && !was.IsLiquidated {
				m.nSeized++
				if b.BridgedAssetAmount.Amount.IsPositive() {
					m.nSeizedX++
				}
			}
		}
		if a := len(c.App.NewaucKeeper.GetAuctions(c.Ctx)); a < pre.aucs {
			m.nAucClosed += pre.aucs - a
		}
		return
	}
	now := m.k.GetAllBorrow(c.Ctx)
	seizedByDenom := map[string]sdk.Int{}
	newly := 0
	one := new(big.Rat).SetInt64(1)
	for _, b := range now {
		was, existed := pre.borrows[b.ID]
		thr, kind := m.thresholdOf(b)
		ratio := m.ratioOf(b)
		if b.IsLiquidated && existed && !was.IsLiquidated {
			newly++
			m.nSeized++
			if b.BridgedAssetAmount.Amount.IsPositive() {
				m.nSeizedX++
			}
			// never seize a borrow at or below its threshold (the module compares 18-decimal quotients: 1e-15 slack)
			lim := new(big.Rat).Mul(thr, new(big.Rat).Sub(one, big.NewRat(1, 1_000_000_000_000_000)))
			if ratio.Cmp(lim) <= 0 {
				r, _ := ratio.Float64()
				t, _ := thr.Float64()
				m.fail("C09.safe-borrow-never-seized", kind, "step %d (%s): borrow %d seized at debt/collateral %.9f, its liquidation threshold is %.9f (debt %s + interest %s, collateral %s)", i, op.K, b.ID, r, t, b.AmountOut, b.InterestAccumulated, b.AmountIn)
			}
			pair := m.pairByID(b.PairID)
			d := ldDenom(m.assetIdx(pair.AssetIn))
			if _, ok := seizedByDenom[d]; !ok {
				seizedByDenom[d] = sdk.ZeroInt()
			}
			seizedByDenom[d] = seizedByDenom[d].Add(b.AmountIn.Amount)
			// exactly one locked record and one auction for it
			n := 0
			for _, lv := range c.App.NewliqKeeper.GetLockedVaults(c.Ctx) {
				if lv.InitiatorType == "lend" && lv.OriginalVaultId == b.ID {
					n++
					na := 0
					for _, a := range c.App.NewaucKeeper.GetAuctions(c.Ctx) {
						if a.LockedVaultId == lv.LockedVaultId {
							na++
							if !a.CollateralToken.Amount.Equal(b.AmountIn.Amount) {
								m.fail("C09.seizure-moves-recorded-collateral", kind, "step %d: auction %d for borrow %d offers %s, recorded collateral %s", i, a.AuctionId, b.ID, a.CollateralToken, b.AmountIn)
							}
						}
					}
					if na != 1 {
						m.fail("C09.one-auction-per-seizure", kind, "step %d: borrow %d seized, %d auctions opened for its locked record", i, b.ID, na)
					}
				}
			}
			if n != 1 {
				m.fail("C09.one-auction-per-seizure", kind, "step %d: borrow %d seized, %d locked records", i, b.ID, n)
			}
			delete(m.unsafeFor, b.ID)
			continue
		}
		if b.IsLiquidated {
			continue
		}
		if sweep {
			lim := new(big.Rat).Mul(thr, new(big.Rat).Add(one, big.NewRat(1, 1_000_000_000_000)))
			if ratio.Cmp(lim) > 0 {
				m.unsafeFor[b.ID]++
				batch := int(m.cs.Cfg.Liq.Batch)
				if batch < 1 {
					batch = 1
				}
				bound := 2*((len(now)+batch-1)/batch) + 1
				if m.unsafeFor[b.ID] > bound {
					// can the pool hand the recorded collateral over at all? (a cross-pool borrow's bridged amount has left it,
					// other borrowers may hold the rest)
					if l, ok := m.k.GetLend(c.Ctx, b.LendingID); ok {
						pool, _ := m.k.GetPool(c.Ctx, l.PoolID)
						pair := m.pairByID(b.PairID)
						if c.ModBal(pool.ModuleName, ldDenom(m.assetIdx(pair.AssetIn))).LT(b.AmountIn.Amount) {
							kind = "pool-cannot-fund-seizure"
						}
					}
					r, _ := ratio.Float64()
					t, _ := thr.Float64()
					m.fail("C09.unsafe-borrow-seized-within-two-sweeps", kind, "step %d: borrow %d has been beyond its threshold (%.9f > %.9f) for %d sweeps; %d borrows, batch %d", i, b.ID, r, t, m.unsafeFor[b.ID], len(now), batch)
				}
			} else {
				delete(m.unsafeFor, b.ID)
				near := new(big.Rat).Mul(thr, big.NewRat(98, 100))
				if ratio.Cmp(near) >= 0 {
					m.nNearSafe++
				}
			}
		}
	}
	if len(seizedByDenom) > 0 && c.App.NewaucKeeper.GetUserBidID(c.Ctx) != pre.bidID {
		// an automatic limit-order bid was executed in the same block: it takes collateral out of (and pays debt
		// token into) the same account, so the account's change is not the seizures' alone
		m.r.Class("seizure-custody-not-judged:automatic-bid-in-same-block")
		seizedByDenom = nil
	}
	for d, want := range seizedByDenom {
		got := c.ModBal(auctypes.ModuleName, d).Sub(pre.custody[d])
		// bids in the same step can only take collateral out; a sweep or a liquidate message pays nothing out
		if !got.Equal(want) {
			m.fail("C09.seizure-moves-recorded-collateral", d, "step %d (%s): auction custody of %s grew by %s, the seized borrows recorded %s", i, op.K, d, got, want)
		}
	}
	if a := len(c.App.NewaucKeeper.GetAuctions(c.Ctx)); a < pre.aucs {
		m.nAucClosed += pre.aucs - a
	}
}

// ltvOf returns the loan-to-value limit that applies to borrow b.
func (m *ldMachine) ltvOf(b lendtypes.BorrowAsset) (*big.Rat, string) {
	cfg := &m.cs.Cfg
	pair := m.pairByID(b.PairID)
	ltv, _ := m.collLtv(pair)
	kind := "same-pool"
	if pair.IsEModeEnabled {
		kind = "e-mode,same-pool"
	}
	if pair.IsInterPool {
		kind = "cross-pool"
		// bridged through a transit asset: its loan-to-value applies on top
		for i := range cfg.Assets {
			if ldDenom(i) == b.BridgedAssetAmount.Denom {
				t, _ := new(big.Rat).SetString(cfg.Assets[i].Ltv)
				ltv.Mul(ltv, t)
			}
		}
	}
	return ltv, kind
}

func (m *ldMachine) checkLtv(i int, op ldOp, b lendtypes.BorrowAsset) {
	c, cfg := m.c, &m.cs.Cfg
	pair := m.pairByID(b.PairID)
	in, out := m.assetIdx(pair.AssetIn), m.assetIdx(pair.AssetOut)
	pin, _ := c.App.MarketKeeper.GetTwa(c.Ctx, cfg.Assets[in].ID)
	pout, _ := c.App.MarketKeeper.GetTwa(c.Ctx, cfg.Assets[out].ID)
	ltv, kind := m.ltvOf(b)
	if pair.IsInterPool {
		m.nInter++
	}
	debt := new(big.Rat).SetInt(b.AmountOut.Amount.BigInt())
	debt.Add(debt, new(big.Rat).SetInt(b.InterestAccumulated.TruncateInt().BigInt()))
	debtV := new(big.Rat).Mul(debt, new(big.Rat).SetUint64(pout.Twa))
	collV := new(big.Rat).Mul(new(big.Rat).SetInt(b.AmountIn.Amount.BigInt()), new(big.Rat).SetUint64(pin.Twa))
	limit := new(big.Rat).Mul(collV, ltv)
	if pair.IsInterPool {
		// the loan is granted in two stages: the collateral's loan-to-value sizes the bridged transit amount (at the
		// prices of that moment), the transit asset's loan-to-value bounds the loan against the bridged amount. After a
		// price move the two readings differ; the applicable limit is the larger of (collateral value x both ratios)
		// and (bridged value x transit ratio), and never more than collateral value x the collateral's ratio.
		for ti := range cfg.Assets {
			if ldDenom(ti) != b.BridgedAssetAmount.Denom {
				continue
			}
			pt, _ := c.App.MarketKeeper.GetTwa(c.Ctx, cfg.Assets[ti].ID)
			tl, _ := new(big.Rat).SetString(cfg.Assets[ti].Ltv)
			bv := new(big.Rat).Mul(new(big.Rat).SetInt(b.BridgedAssetAmount.Amount.BigInt()), new(big.Rat).SetUint64(pt.Twa))
			bv.Mul(bv, tl)
			if bv.Cmp(limit) > 0 {
				limit = bv
			}
		}
		il, _ := m.collLtv(pair)
		if first := new(big.Rat).Mul(collV, il); first.Cmp(limit) < 0 {
			limit = first
		}
	}
	// all assets have the same number of decimals; the module compares 18-decimal quotients: allow 1e-15 relative
	slack := new(big.Rat).Mul(limit, big.NewRat(1, 1_000_000_000_000_000))
	// cross-pool: the bridged quantity is truncated to whole units of the transit asset before the second check
	if debtV.Cmp(new(big.Rat).Add(limit, slack)) > 0 {
		r, _ := new(big.Rat).Quo(debtV, collV).Float64()
		l, _ := ltv.Float64()
		m.fail("C08.loan-within-loan-to-value", kind+"/"+op.K, "step %d: %s on borrow %d left debt %s (+interest %s) against collateral %s: debt/collateral value %.9f exceeds the loan-to-value %.6f (prices in %d out %d)",
			i, op.K, b.ID, b.AmountOut, b.InterestAccumulated, b.AmountIn, r, l, pin.Twa, pout.Twa)
	}
	edge := new(big.Rat).Mul(limit, big.NewRat(99, 100))
	if debtV.Cmp(edge) >= 0 {
		m.nLtvEdge++
	}
	if b.InterestAccumulated.IsPositive() {
		m.nAccrued++
	}
}

// invariants re-derives the published totals from the positions.
func (m *ldMachine) invariants(i int, op ldOp) {
	c := m.c
	if m.prop == "C20" || m.prop == "C16" {
		// differential checks compare two executions with each other; on a chain imported from a genesis with recorded
		// gaps (id counters) this machine's own bookkeeping oracles would only restate those gaps
		return
	}
	lends := m.k.GetAllLend(c.Ctx)
	borrows := m.k.GetAllBorrow(c.Ctx)
	pledged := map[uint64]sdk.Int{}
	for _, b := range borrows {
		if b.IsLiquidated {
			continue
		}
		if _, ok := pledged[b.LendingID]; !ok {
			pledged[b.LendingID] = sdk.ZeroInt()
		}
		pledged[b.LendingID] = pledged[b.LendingID].Add(b.AmountIn.Amount)
	}
	type key struct{ pool, asset uint64 }
	lent := map[key]sdk.Int{}
	for _, l := range lends {
		k := key{l.PoolID, l.AssetID}
		if _, ok := lent[k]; !ok {
			lent[k] = sdk.ZeroInt()
		}
		lent[k] = lent[k].Add(l.AvailableToBorrow)
		if p, ok := pledged[l.ID]; ok {
			lent[k] = lent[k].Add(p)
		}
		if l.AvailableToBorrow.IsNegative() {
			m.fail("C08.available-to-borrow-nonnegative", op.K, "step %d: lend %d has available-to-borrow %s", i, l.ID, l.AvailableToBorrow)
		}
		if l.AvailableToBorrow.GT(l.AmountIn.Amount) {
			m.nRewarded++
		}
	}
	variable, stable := map[key]sdk.Int{}, map[key]sdk.Int{}
	for _, b := range borrows {
		if b.IsLiquidated {
			continue
		}
		p := m.pairByID(b.PairID)
		k := key{p.AssetOutPoolID, p.AssetOut}
		tgt := variable
		if b.IsStableBorrow {
			tgt = stable
		}
		if _, ok := tgt[k]; !ok {
			tgt[k] = sdk.ZeroInt()
		}
		tgt[k] = tgt[k].Add(b.AmountOut.Amount)
	}
	z := func(v sdk.Int, ok bool) sdk.Int {
		if !ok || v.IsNil() {
			return sdk.ZeroInt()
		}
		return v
	}
	for _, st := range m.k.GetAllAssetStatsByPoolIDAndAssetID(c.Ctx) {
		k := key{st.PoolID, st.AssetID}
		ctxs := fmt.Sprintf("after:%s", op.K)
		l, ok := lent[k]
		if want := z(l, ok); !z(st.TotalLend, true).Equal(want) {
			m.fail("C08.total-lend-equals-positions", ctxs, "step %d: pool %d asset %d publishes total lent %s, positions (available + pledged to open borrows) sum to %s", i, st.PoolID, st.AssetID, st.TotalLend, want)
		}
		v, ok := variable[k]
		if want := z(v, ok); !z(st.TotalBorrowed, true).Equal(want) {
			m.fail("C08.total-borrowed-equals-positions", ctxs, "step %d: pool %d asset %d publishes total borrowed %s, open variable borrows sum to %s", i, st.PoolID, st.AssetID, st.TotalBorrowed, want)
		}
		s, ok := stable[k]
		if want := z(s, ok); !z(st.TotalStableBorrowed, true).Equal(want) {
			m.fail("C08.total-stable-borrowed-equals-positions", ctxs, "step %d: pool %d asset %d publishes total stable borrowed %s, open stable borrows sum to %s", i, st.PoolID, st.AssetID, st.TotalStableBorrowed, want)
		}
	}
	_ = authtypes.ModuleName
	if m.cs.Cfg.Liq != nil {
		m.auctionCustodyLend(i, op)
	}
}

// auctionCustodyLend: the auction module holds, per denomination, exactly what the live auctions of seized borrows
// account for: the collateral not yet sold and the debt already paid in by partial bids (handed to the lending pool
// only when the auction closes). Nothing else uses the auction module in this world, so any other balance is an
// unaccounted remainder of a closed auction (or a shortfall of a live one).
func (m *ldMachine) auctionCustodyLend(i int, op ldOp) {
	c := m.c
	want := map[string]sdk.Int{}
	for ai := range m.cs.Cfg.Assets {
		want[ldDenom(ai)] = sdk.ZeroInt()
	}
	live := 0
	for _, a := range c.App.NewaucKeeper.GetAuctions(c.Ctx) {
		lv, ok := c.App.NewliqKeeper.GetLockedVault(c.Ctx, a.AppId, a.LockedVaultId)
		if !ok {
			m.fail("C10.auction-has-its-locked-record", "lend", "step %d: auction %d has no locked record", i, a.AuctionId)
		}
		live++
		want[a.CollateralToken.Denom] = want[a.CollateralToken.Denom].Add(a.CollateralToken.Amount)
		paid := lv.TargetDebt.Amount.Sub(a.DebtToken.Amount)
		if paid.IsNegative() {
			m.fail("C10.bidders-pay-at-most-the-target-debt", "lend", "step %d: auction %d still asks %s of a target of %s", i, a.AuctionId, a.DebtToken, lv.TargetDebt)
		}
		want[a.DebtToken.Denom] = want[a.DebtToken.Denom].Add(paid)
	}
	// limit-bid deposits wait in the same account (the fees on leaving are zero in this world)
	for _, lb := range m.limitBids() {
		want[lb.DebtToken.Denom] = want[lb.DebtToken.Denom].Add(lb.DebtToken.Amount)
	}
	for ai := range m.cs.Cfg.Assets {
		d := ldDenom(ai)
		if have := c.ModBal(auctypes.ModuleName, d); !have.Equal(want[d]) {
			m.fail("C10.auction-custody-fully-accounted", "lend,after:"+op.K, "step %d: auction custody holds %s%s; the %d live auctions account for %s (unsold collateral + debt paid in by partial bids)", i, have, d, live, want[d])
		}
	}
}

// limitBids lists every limit-bid record of the world's asset pairs, in a fixed order.
func (m *ldMachine) limitBids() []auctypes.LimitOrderBid {
	var out []auctypes.LimitOrderBid
	for _, d := range m.cs.Cfg.Assets {
		for _, cl := range m.cs.Cfg.Assets {
			for prem := int64(0); prem <= 30; prem++ {
				if bids, ok := m.c.App.NewaucKeeper.GetUserLimitBidDataByPremium(m.c.Ctx, d.ID, cl.ID, sdk.NewInt(prem)); ok {
					out = append(out, bids...)
				}
			}
		}
	}
	return out
}

func (m *ldMachine) finish() {
	for _, k := range sortedKeys(m.c.HandlerPanics) {
		m.r.ClassN("handler-panic:"+k, m.c.HandlerPanics[k])
	}
	r := m.r
	for k, n := range m.ok {
		r.ClassN("ok:"+k, n)
	}
	r.ClassN("loans-checked-cross-pool", m.nInter)
	r.ClassN("loans-checked-with-accrued-interest", m.nAccrued)
	r.ClassN("loans-within-1pct-of-limit", m.nLtvEdge)
	r.ClassN("stable-borrows", m.nStable)
	if m.nRewarded > 0 {
		r.Class("lend-position-credited-with-rewards")
	}
	r.ClassN("borrows-seized", m.nSeized)
	r.ClassN("borrows-seized-cross-pool", m.nSeizedX)
	r.ClassN("borrows-within-2pct-of-threshold-surviving-a-sweep", m.nNearSafe)
	r.ClassN("borrow-auctions-closed", m.nAucClosed)
	nb := m.ok["borrow"] + m.ok["borrowalt"]
	if nb > 0 && m.ok["block"] > 0 && (m.ok["repay"]+m.ok["draw"]+m.ok["closeborrow"]+m.ok["withdraw"]) > 0 {
		r.NonTrivialSig(rec.Sig(m.cs), func() interface{} {
			return map[string]interface{}{"ops": len(m.cs.Ops), "ok": m.ok, "cross_pool_loans": m.nInter, "loans_with_accrued_interest": m.nAccrued, "near_limit": m.nLtvEdge}
		})
	}
}

func TestC08_lend(t *testing.T) {
	r := rec.New("C08", "lend")
	t.Cleanup(r.Flush)
	rapid.Check(t, func(rt *rapid.T) {
		r.Guard(func() {
			r.Eval()
			cs := &ldCase{Cfg: genLdCfg(rt)}
			m := newLdMachine(rt, r, "C08", cs)
			n := rapid.IntRange(15, 60).Draw(rt, "nops")
			for i := 0; i < n; i++ {
				op := m.genOp(rt, i)
				cs.Ops = append(cs.Ops, op)
				m.apply(i, op)
			}
			m.finish()
		})
	})
}

func init() {
	replayers["C08.lend"] = func(t *testing.T, r *rec.Rec, raw json.RawMessage) {
		var cs ldCase
		if err := json.Unmarshal(raw, &cs); err != nil {
			t.Fatal(err)
		}
		r.Eval()
		m := newLdMachine(t, r, "C08", &cs)
		for i, op := range cs.Ops {
			m.apply(i, op)
		}
		m.finish()
	}
}

func genLdLiq(rt *rapid.T) *ldLiq {
	return &ldLiq{Batch: uint64(rapid.SampledFrom([]int{1, 2, 3, 5, 200}).Draw(rt, "liqbatch")), Duration: uint64(rapid.SampledFrom([]int{60, 600, 7200}).Draw(rt, "aucdur")),
		Premium: rapid.SampledFrom([]string{"1.1", "1.2", "1"}).Draw(rt, "premium"), Discount: rapid.SampledFrom([]string{"0.7", "0.9"}).Draw(rt, "discount")}
}

func TestC09_borrows(t *testing.T) {
	r := rec.New("C09", "borrows")
	t.Cleanup(r.Flush)
	rapid.Check(t, func(rt *rapid.T) {
		r.Guard(func() {
			r.Eval()
			cs := &ldCase{Cfg: genLdCfg(rt)}
			cs.Cfg.Liq = genLdLiq(rt)
			m := newLdMachine(rt, r, "C09", cs)
			n := rapid.IntRange(20, 70).Draw(rt, "nops")
			for i := 0; i < n; i++ {
				op := m.genOp(rt, i)
				cs.Ops = append(cs.Ops, op)
				m.apply(i, op)
			}
			m.finish()
			if m.nSeized > 0 {
				r.NonTrivialSig(rec.Sig(cs), func() interface{} {
					return map[string]interface{}{"ops": len(cs.Ops), "seized": m.nSeized, "seized_cross_pool": m.nSeizedX, "near_threshold_survivors": m.nNearSafe, "auctions_closed": m.nAucClosed}
				})
			}
		})
	})
}

func init() {
	replayers["C09.borrows"] = func(t *testing.T, r *rec.Rec, raw json.RawMessage) {
		var cs ldCase
		if err := json.Unmarshal(raw, &cs); err != nil {
			t.Fatal(err)
		}
		r.Eval()
		m := newLdMachine(t, r, "C09", &cs)
		for i, op := range cs.Ops {
			m.apply(i, op)
		}
		m.finish()
	}
}

// TestC10_borrows runs the lend-liquidation histories for the auction-custody accounting (auctionCustodyLend).
func TestC10_borrows(t *testing.T) {
	r := rec.New("C10", "borrows")
	t.Cleanup(r.Flush)
	rapid.Check(t, func(rt *rapid.T) {
		r.Guard(func() {
			r.Eval()
			cs := &ldCase{Cfg: genLdCfg(rt)}
			cs.Cfg.Liq = genLdLiq(rt)
			m := newLdMachine(rt, r, "C10", cs)
			n := rapid.IntRange(20, 70).Draw(rt, "nops")
			for i := 0; i < n; i++ {
				op := m.genOp(rt, i)
				cs.Ops = append(cs.Ops, op)
				m.apply(i, op)
			}
			m.finish()
			if m.nAucClosed > 0 && m.ok["bid"] >= 2 {
				r.NonTrivialSig(rec.Sig(cs), func() interface{} {
					return map[string]interface{}{"ops": len(cs.Ops), "seized": m.nSeized, "bids": m.ok["bid"], "auctions_closed": m.nAucClosed}
				})
			}
		})
	})
}

func init() {
	replayers["C10.borrows"] = replayers["C09.borrows"]
}

// TestC08_liquidation asserts the books identity on the lend-liquidation histories (seizure hands collateral to an
// auction, the auction's close retires the borrow): the property excludes exactly the collateral handed over.
func TestC08_liquidation(t *testing.T) {
	r := rec.New("C08", "liquidation")
	t.Cleanup(r.Flush)
	rapid.Check(t, func(rt *rapid.T) {
		r.Guard(func() {
			r.Eval()
			cs := &ldCase{Cfg: genLdCfg(rt)}
			cs.Cfg.Liq = genLdLiq(rt)
			m := newLdMachine(rt, r, "C08", cs)
			n := rapid.IntRange(20, 70).Draw(rt, "nops")
			for i := 0; i < n; i++ {
				op := m.genOp(rt, i)
				cs.Ops = append(cs.Ops, op)
				m.apply(i, op)
			}
			m.finish()
			if m.nSeized > 0 {
				r.NonTrivialSig(rec.Sig([]interface{}{"liq", cs}), func() interface{} {
					return map[string]interface{}{"ops": len(cs.Ops), "seized": m.nSeized, "auctions_closed": m.nAucClosed}
				})
			}
		})
	})
}

func init() {
	replayers["C08.liquidation"] = replayers["C08.lend"]
}
