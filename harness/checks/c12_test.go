package checks

// C12 — only the rightful party can act. For reachable states of the vault /
// locker / liquidation world and of the liquidity world, every message type
// that names a position is built valid for the owner and then sent — as a
// signed transaction through DeliverTx — by every other account; the attempt
// must be rejected and must leave the whole application state untouched apart
// from what the ante handler writes for every transaction (the signer's
// account record and wasm's transaction counter). The same message by the
// owner is then tried on a discarded branch as positive control.

import (
	"bytes"
	"encoding/json"
	"fmt"
	"strings"
	"testing"

	sdk "github.com/cosmos/cosmos-sdk/types"
	"pgregory.net/rapid"

	auctypes "github.com/comdex-official/comdex/x/auctionsV2/types"
	esmtypes "github.com/comdex-official/comdex/x/esm/types"
	lendtypes "github.com/comdex-official/comdex/x/lend/types"
	liqtypes "github.com/comdex-official/comdex/x/liquidity/types"
	lockertypes "github.com/comdex-official/comdex/x/locker/types"
	vaulttypes "github.com/comdex-official/comdex/x/vault/types"

	"verif/dump"
	"verif/rec"
	"verif/world"
)

type c12Attempt struct {
	Kind  string // message kind
	Owner int    // account index of the rightful party (-1: none, e.g. admin)
	build func(from sdk.AccAddress) sdk.Msg
	// hasOwn tells whether the sender holds a position of its own that the same message would
	// legitimately act on (positions keyed by the sender: farms, limit bids, own orders)
	hasOwn func(from sdk.AccAddress) bool
}

type c12Case struct {
	World string  `json:"world"`
	V     *vCase  `json:"v,omitempty"`
	L     *lCase  `json:"l,omitempty"`
	Ld    *ldCase `json:"lend,omitempty"`
}

// anteOnly reports whether every change is something the ante handler writes for any transaction.
func anteOnly(cs []dump.Change, signer sdk.AccAddress) (bool, string) {
	for _, c := range cs {
		if c.Store == "wasm" && len(c.Key) == 1 && c.Key[0] == 0x08 {
			continue
		}
		if c.Store == "acc" && len(c.Key) > 1 && c.Key[0] == 0x01 && bytes.Equal(c.Key[1:], signer) {
			continue
		}
		return false, c.String()
	}
	return true, ""
}

func c12RunAttempts(t rec.TB, r *rec.Rec, cs *c12Case, c *world.Chain, atts []c12Attempt, naccs int, foreign func(sdk.AccAddress) string) {
	for _, a := range atts {
		for att := 0; att < naccs; att++ {
			if att == a.Owner {
				continue
			}
			if a.hasOwn != nil && a.hasOwn(c.Accs[att].Addr) {
				// the sender holds a position of its own that this message legitimately acts on: it may
				// succeed, but every position record that belongs to somebody else must stay as it is
				// (run on a branch that is thrown away, so that later attempts see the same state)
				msg := a.build(c.Accs[att].Addr)
				if msg.ValidateBasic() != nil {
					continue
				}
				save := c.Ctx
				cctx, _ := c.Ctx.CacheContext()
				c.Ctx = cctx
				before := foreign(c.Accs[att].Addr)
				_, err := c.Deliver(msg)
				after := foreign(c.Accs[att].Addr)
				c.Ctx = save
				r.Class("attempt-with-own-position:" + a.Kind)
				if before != after {
					r.Fail(t, "C12.message-on-own-position-changes-foreign-position", a.Kind, cs,
						"%s sent by account %d (err=%v) changed position records of other accounts:\n%s", a.Kind, att, err, lineDiff(before, after))
				}
				continue
			}
			msg := a.build(c.Accs[att].Addr)
			if msg.ValidateBasic() != nil {
				continue
			}
			pre := dump.Take(c.App, c.Ctx)
			resp, err := c.DeliverTx(c.Accs[att], msg)
			if err != nil {
				continue
			}
			post := dump.Take(c.App, c.Ctx)
			diff := dump.Diff(pre, post)
			clean, what := anteOnly(diff, c.Accs[att].Addr)
			r.Class("attempt:" + a.Kind)
			if resp.Code == 0 && !clean {
				r.Fail(t, "C12.non-owner-message-accepted", a.Kind, cs, "%s sent by account %d (owner is account %d) succeeded and changed state: %s", a.Kind, att, a.Owner, dump.Summary(diff, 6))
			}
			if resp.Code != 0 && !clean {
				r.Fail(t, "C12.rejected-attempt-changes-nothing", a.Kind, cs, "%s by non-owner account %d was rejected (code %d) but changed %s", a.Kind, att, resp.Code, what)
			}
		}
		// positive control: the rightful party, on a branch that is thrown away
		if a.Owner >= 0 {
			save := c.Ctx
			cctx, _ := c.Ctx.CacheContext()
			c.Ctx = cctx
			_, err := c.Deliver(a.build(c.Accs[a.Owner].Addr))
			c.Ctx = save
			if err == nil {
				r.Class("owner-control-succeeds:" + a.Kind)
				r.NonTrivialSig(rec.Sig([]interface{}{cs, a.Kind}), func() interface{} {
					return map[string]interface{}{"message": a.Kind, "owner": a.Owner, "world": cs.World}
				})
			} else {
				r.Class("owner-control-fails:" + a.Kind)
			}
		}
	}
}

// lineDiff lists the lines present in only one of two line-oriented digests.
func lineDiff(a, b string) string {
	inA := map[string]bool{}
	for _, l := range strings.Split(a, "\n") {
		inA[l] = true
	}
	inB := map[string]bool{}
	for _, l := range strings.Split(b, "\n") {
		inB[l] = true
	}
	var out []string
	for _, l := range strings.Split(a, "\n") {
		if !inB[l] {
			out = append(out, "- "+l)
		}
	}
	for _, l := range strings.Split(b, "\n") {
		if !inA[l] {
			out = append(out, "+ "+l)
		}
	}
	if len(out) > 8 {
		out = out[:8]
	}
	return strings.Join(out, "\n")
}

// c12VaultForeign digests every vault, locker and limit bid that does not belong to `from`.
func c12VaultForeign(m *vMachine) func(sdk.AccAddress) string {
	return func(from sdk.AccAddress) string {
		c := m.c
		var b strings.Builder
		for _, v := range c.App.VaultKeeper.GetVaults(c.Ctx) {
			if v.Owner != from.String() {
				fmt.Fprintf(&b, "vault %d %s in=%s out=%s\n", v.Id, v.Owner, v.AmountIn, v.AmountOut)
			}
		}
		for _, l := range c.App.LockerKeeper.GetLockers(c.Ctx) {
			if l.Depositor != from.String() {
				fmt.Fprintf(&b, "locker %d %s net=%s\n", l.LockerId, l.Depositor, l.NetBalance)
			}
		}
		cfg := &m.cs.Cfg
		for _, d := range cfg.Assets[cfg.NColl:] {
			for _, col := range cfg.Assets[:cfg.NColl] {
				for prem := int64(0); prem <= 30; prem++ {
					bids, _ := c.App.NewaucKeeper.GetUserLimitBidDataByPremium(c.Ctx, d.ID, col.ID, sdk.NewInt(prem))
					for _, lb := range bids {
						if lb.BidderAddress != from.String() {
							bz, _ := json.Marshal(lb)
							fmt.Fprintf(&b, "limitbid %s\n", bz)
						}
					}
				}
			}
		}
		return b.String()
	}
}

// c12LiquidityForeign digests every order and farm position that does not belong to `from`.
func c12LiquidityForeign(m *lMachine) func(sdk.AccAddress) string {
	return func(from sdk.AccAddress) string {
		c := m.c
		var b strings.Builder
		for _, a := range m.cs.Cfg.Apps {
			for _, o := range m.k.GetAllOrders(c.Ctx, a.ID) {
				if o.Orderer != from.String() {
					fmt.Fprintf(&b, "order app=%d pair=%d id=%d %s %s open=%s remaining=%s received=%s\n", o.AppId, o.PairId, o.Id, o.Orderer, o.Status, o.OpenAmount, o.RemainingOfferCoin, o.ReceivedCoin)
				}
			}
			for _, pool := range m.k.GetAllPools(c.Ctx, a.ID) {
				for _, f := range m.k.GetAllActiveFarmers(c.Ctx, a.ID, pool.Id) {
					if f.Farmer != from.String() {
						fmt.Fprintf(&b, "farm app=%d pool=%d %s %s\n", a.ID, pool.Id, f.Farmer, f.FarmedPoolCoin)
					}
				}
				for _, f := range m.k.GetAllQueuedFarmers(c.Ctx, a.ID, pool.Id) {
					if f.Farmer != from.String() {
						bz, _ := json.Marshal(f.QueudCoins)
						fmt.Fprintf(&b, "queued app=%d pool=%d %s %s\n", a.ID, pool.Id, f.Farmer, bz)
					}
				}
			}
		}
		return b.String()
	}
}

func c12VaultAttempts(m *vMachine) []c12Attempt {
	c, cfg := m.c, &m.cs.Cfg
	var out []c12Attempt
	add := func(kind string, owner int, own func(sdk.AccAddress) bool, build func(sdk.AccAddress) sdk.Msg) {
		out = append(out, c12Attempt{Kind: kind, Owner: owner, build: build, hasOwn: own})
	}
	owner := func(addr string) int { return m.userIdx(addr) }
	for _, v := range c.App.VaultKeeper.GetVaults(c.Ctx) {
		v := v
		o := owner(v.Owner)
		p := m.productByID(v.ExtendedPairVaultID)
		if p == nil || o < 0 {
			continue
		}
		one := sdk.NewInt(1000)
		add("vault-deposit", o, nil, func(f sdk.AccAddress) sdk.Msg {
			return vaulttypes.NewMsgDepositRequest(f, v.AppId, v.ExtendedPairVaultID, v.Id, one)
		})
		add("vault-withdraw", o, nil, func(f sdk.AccAddress) sdk.Msg {
			return vaulttypes.NewMsgWithdrawRequest(f, v.AppId, v.ExtendedPairVaultID, v.Id, sdk.OneInt())
		})
		add("vault-draw", o, nil, func(f sdk.AccAddress) sdk.Msg {
			return vaulttypes.NewMsgDrawRequest(f, v.AppId, v.ExtendedPairVaultID, v.Id, sdk.OneInt())
		})
		add("vault-repay", o, nil, func(f sdk.AccAddress) sdk.Msg {
			return vaulttypes.NewMsgRepayRequest(f, v.AppId, v.ExtendedPairVaultID, v.Id, sdk.OneInt())
		})
		add("vault-close", o, nil, func(f sdk.AccAddress) sdk.Msg {
			return vaulttypes.NewMsgLiquidateRequest(f, v.AppId, v.ExtendedPairVaultID, v.Id)
		})
		add("vault-deposit-and-draw", o, nil, func(f sdk.AccAddress) sdk.Msg {
			return vaulttypes.NewMsgDepositAndDrawRequest(f, v.AppId, v.ExtendedPairVaultID, v.Id, one)
		})
	}
	for _, l := range c.App.LockerKeeper.GetLockers(c.Ctx) {
		l := l
		o := owner(l.Depositor)
		if o < 0 {
			continue
		}
		add("locker-deposit", o, nil, func(f sdk.AccAddress) sdk.Msg {
			return lockertypes.NewMsgDepositAssetRequest(f.String(), l.LockerId, sdk.NewInt(10), l.AssetDepositId, l.AppId)
		})
		add("locker-withdraw", o, nil, func(f sdk.AccAddress) sdk.Msg {
			return lockertypes.NewMsgWithdrawAssetRequest(f.String(), l.LockerId, sdk.OneInt(), l.AssetDepositId, l.AppId)
		})
		add("locker-close", o, nil, func(f sdk.AccAddress) sdk.Msg {
			return lockertypes.NewMsgCloseLockerRequest(f.String(), l.AppId, l.AssetDepositId, l.LockerId)
		})
	}
	// limit bids are keyed by the bidder: another account naming the same (collateral, debt, premium) has none
	if cfg.Liq != nil {
		for prem := int64(0); prem <= 30; prem++ {
			for pi := range cfg.Products {
				p := m.product(pi)
				bids, ok := c.App.NewaucKeeper.GetUserLimitBidDataByPremium(c.Ctx, m.outAsset(p).ID, m.inAsset(p).ID, sdk.NewInt(prem))
				if !ok {
					continue
				}
				for _, b := range bids {
					b, p, prem := b, p, prem
					o := owner(b.BidderAddress)
					if o < 0 || !b.DebtToken.Amount.IsPositive() {
						continue
					}
					own := func(f sdk.AccAddress) bool {
						_, ok := c.App.NewaucKeeper.GetUserLimitBidData(c.Ctx, m.outAsset(p).ID, m.inAsset(p).ID, sdk.NewInt(prem), f.String())
						return ok
					}
					add("limit-bid-cancel", o, own, func(f sdk.AccAddress) sdk.Msg {
						return auctypes.NewMsgCancelLimitBid(f.String(), m.inAsset(p).ID, m.outAsset(p).ID, sdk.NewInt(prem))
					})
					add("limit-bid-withdraw", o, own, func(f sdk.AccAddress) sdk.Msg {
						return auctypes.NewMsgWithdrawLimitBid(f.String(), m.inAsset(p).ID, m.outAsset(p).ID, sdk.NewInt(prem), sdk.NewCoin(b.DebtToken.Denom, sdk.OneInt()))
					})
				}
			}
		}
	}
	// kill switch: only the configured admins (none of the accounts here is one)
	for _, app := range m.apps {
		app := app
		add("esm-kill-switch", -1, nil, func(f sdk.AccAddress) sdk.Msg {
			return &esmtypes.MsgKillRequest{From: f.String(), KillSwitchParams: &esmtypes.KillSwitchParams{AppId: app, BreakerEnable: true}}
		})
	}
	return out
}

// c12LendAttempts: every message that names a lend or a borrow position, built valid for its owner.
func c12LendAttempts(m *ldMachine) []c12Attempt {
	c := m.c
	var out []c12Attempt
	add := func(kind string, owner int, build func(sdk.AccAddress) sdk.Msg) {
		out = append(out, c12Attempt{Kind: kind, Owner: owner, build: build})
	}
	for _, l := range m.k.GetAllLend(c.Ctx) {
		l := l
		ai := m.assetIdx(l.AssetID)
		owner := m.userIdx(l.Owner)
		if ai < 0 || owner < 0 {
			continue
		}
		den := ldDenom(ai)
		part := l.AvailableToBorrow.QuoRaw(2)
		if part.IsPositive() {
			add("lend-withdraw-part", owner, func(f sdk.AccAddress) sdk.Msg {
				return lendtypes.NewMsgWithdraw(f.String(), l.ID, sdk.NewCoin(den, part))
			})
		}
		if l.AvailableToBorrow.IsPositive() {
			// exactly everything that is available: the handler turns this into a close
			add("lend-withdraw-all", owner, func(f sdk.AccAddress) sdk.Msg {
				return lendtypes.NewMsgWithdraw(f.String(), l.ID, sdk.NewCoin(den, l.AvailableToBorrow))
			})
		}
		add("lend-close", owner, func(f sdk.AccAddress) sdk.Msg { return lendtypes.NewMsgCloseLend(f.String(), l.ID) })
		// borrowing against somebody else's lend position
		for _, p := range m.pairs {
			p := p
			if p.AssetIn != l.AssetID || p.IsInterPool || p.AssetOutPoolID != l.PoolID {
				continue
			}
			coll := l.AvailableToBorrow.QuoRaw(2)
			if !coll.IsPositive() {
				break
			}
			add("borrow-against-lend", owner, func(f sdk.AccAddress) sdk.Msg {
				return lendtypes.NewMsgBorrow(f.String(), l.ID, p.Id, false, sdk.NewCoin(ldCDenom(ai), coll), sdk.NewCoin(ldDenom(m.assetIdx(p.AssetOut)), sdk.NewInt(2000000)))
			})
			break
		}
	}
	for _, b := range m.k.GetAllBorrow(c.Ctx) {
		b := b
		if b.IsLiquidated {
			continue
		}
		l, ok := m.k.GetLend(c.Ctx, b.LendingID)
		owner := m.userIdx(l.Owner)
		if !ok || owner < 0 {
			continue
		}
		p := m.pairByID(b.PairID)
		outDen := ldDenom(m.assetIdx(p.AssetOut))
		add("borrow-draw", owner, func(f sdk.AccAddress) sdk.Msg {
			return lendtypes.NewMsgDraw(f.String(), b.ID, sdk.NewCoin(outDen, sdk.NewInt(1)))
		})
		add("borrow-repay", owner, func(f sdk.AccAddress) sdk.Msg {
			return lendtypes.NewMsgRepay(f.String(), b.ID, sdk.NewCoin(outDen, clampPos(b.AmountOut.Amount.QuoRaw(3))))
		})
		add("borrow-close", owner, func(f sdk.AccAddress) sdk.Msg { return lendtypes.NewMsgCloseBorrow(f.String(), b.ID) })
		add("borrow-deposit", owner, func(f sdk.AccAddress) sdk.Msg {
			return lendtypes.NewMsgDepositBorrow(f.String(), b.ID, sdk.NewCoin(b.AmountIn.Denom, sdk.NewInt(1)))
		})
	}
	return out
}

// c12LendForeign digests every lend and borrow position that does not belong to `from`.
func c12LendForeign(m *ldMachine) func(sdk.AccAddress) string {
	return func(from sdk.AccAddress) string {
		var b strings.Builder
		owners := map[uint64]string{}
		for _, l := range m.k.GetAllLend(m.c.Ctx) {
			owners[l.ID] = l.Owner
			if l.Owner != from.String() {
				fmt.Fprintf(&b, "lend %d %s in=%s avail=%s\n", l.ID, l.Owner, l.AmountIn, l.AvailableToBorrow)
			}
		}
		for _, x := range m.k.GetAllBorrow(m.c.Ctx) {
			if owners[x.LendingID] != from.String() {
				fmt.Fprintf(&b, "borrow %d lend=%d in=%s out=%s\n", x.ID, x.LendingID, x.AmountIn, x.AmountOut)
			}
		}
		return b.String()
	}
}

func c12LiquidityAttempts(m *lMachine) []c12Attempt {
	c, cfg := m.c, &m.cs.Cfg
	var out []c12Attempt
	add := func(kind string, owner int, own func(sdk.AccAddress) bool, build func(sdk.AccAddress) sdk.Msg) {
		out = append(out, c12Attempt{Kind: kind, Owner: owner, build: build, hasOwn: own})
	}
	idx := func(addr string) int {
		for i, a := range c.Accs {
			if a.Addr.String() == addr {
				return i
			}
		}
		return -1
	}
	for _, a := range cfg.Apps {
		for _, o := range m.k.GetAllOrders(c.Ctx, a.ID) {
			o := o
			if !isLive(o.Status) {
				continue
			}
			pair, _ := m.k.GetPair(c.Ctx, a.ID, o.PairId)
			if o.BatchId >= pair.CurrentBatchId {
				continue // cannot be cancelled in its placement batch even by the owner
			}
			add("order-cancel", idx(o.Orderer), nil, func(f sdk.AccAddress) sdk.Msg { return liqtypes.NewMsgCancelOrder(o.AppId, f, o.PairId, o.Id) })
		}
		for _, pool := range m.k.GetAllPools(c.Ctx, a.ID) {
			pool := pool
			ownFarm := func(f sdk.AccAddress) bool {
				if _, ok := m.k.GetActiveFarmer(c.Ctx, pool.AppId, pool.Id, f); ok {
					return true
				}
				q, ok := m.k.GetQueuedFarmer(c.Ctx, pool.AppId, pool.Id, f)
				return ok && len(q.QueudCoins) > 0
			}
			for _, af := range m.k.GetAllActiveFarmers(c.Ctx, a.ID, pool.Id) {
				af := af
				add("unfarm", idx(af.Farmer), ownFarm, func(f sdk.AccAddress) sdk.Msg {
					return liqtypes.NewMsgUnfarm(af.AppId, af.PoolId, f, sdk.NewCoin(pool.PoolCoinDenom, sdk.OneInt()))
				})
				add("unfarm-and-withdraw", idx(af.Farmer), ownFarm, func(f sdk.AccAddress) sdk.Msg {
					return liqtypes.NewMsgUnfarmAndWithdraw(af.AppId, af.PoolId, f, sdk.NewCoin(pool.PoolCoinDenom, sdk.OneInt()))
				})
			}
			for _, qf := range m.k.GetAllQueuedFarmers(c.Ctx, a.ID, pool.Id) {
				qf := qf
				if len(qf.QueudCoins) == 0 {
					continue
				}
				add("unfarm-queued", idx(qf.Farmer), ownFarm, func(f sdk.AccAddress) sdk.Msg {
					return liqtypes.NewMsgUnfarm(qf.AppId, qf.PoolId, f, sdk.NewCoin(pool.PoolCoinDenom, sdk.OneInt()))
				})
			}
		}
		// cancel-all and MM cancel act on the sender's own orders only: sent by an account without orders of
		// its own in that pair they may well succeed, but must not touch anything (the full-state diff decides)
		for _, pr := range m.k.GetAllPairs(c.Ctx, a.ID) {
			pr := pr
			ownOrders := func(f sdk.AccAddress) bool {
				for _, o := range m.k.GetOrdersByOrderer(c.Ctx, pr.AppId, f) {
					if o.PairId == pr.Id && isLive(o.Status) {
						return true
					}
				}
				_, ok := m.k.GetMMOrderIndex(c.Ctx, f, pr.AppId, pr.Id)
				return ok
			}
			for mk := 0; mk < lNumMM; mk++ {
				maker := c.Accs[lNumLP+mk].Addr
				if idxd, ok := m.k.GetMMOrderIndex(c.Ctx, maker, a.ID, pr.Id); ok && len(idxd.OrderIds) > 0 {
					add("mm-cancel", lNumLP+mk, ownOrders, func(f sdk.AccAddress) sdk.Msg { return liqtypes.NewMsgCancelMMOrder(pr.AppId, f, pr.Id) })
					add("cancel-all", lNumLP+mk, ownOrders, func(f sdk.AccAddress) sdk.Msg { return liqtypes.NewMsgCancelAllOrders(pr.AppId, f, []uint64{pr.Id}) })
				}
			}
		}
	}
	return out
}

func TestC12_positions(t *testing.T) {
	r := rec.New("C12", "positions")
	t.Cleanup(r.Flush)
	rapid.Check(t, func(rt *rapid.T) {
		r.Guard(func() {
			r.Eval()
			cs := &c12Case{World: rapid.SampledFrom([]string{"vault", "liquidity", "lend"}).Draw(rt, "world")}
			if cs.World == "lend" {
				lc := &ldCase{Cfg: genLdCfg(rt)}
				cs.Ld = lc
				m := newLdMachine(rt, r, "C12", lc)
				n := rapid.IntRange(15, 45).Draw(rt, "nops")
				for i := 0; i < n; i++ {
					op := m.genOp(rt, i)
					lc.Ops = append(lc.Ops, op)
					m.apply(i, op)
				}
				c12RunAttempts(rt, r, cs, m.c, c12LendAttempts(m), lc.Cfg.NUsers, c12LendForeign(m))
			} else if cs.World == "vault" {
				vc := &vCase{Cfg: genVCfg(rt, "C13", true)}
				cs.V = vc
				m := newVMachine(rt, r, "C12", vc)
				n := rapid.IntRange(15, 50).Draw(rt, "nops")
				for i := 0; i < n; i++ {
					op := m.genOp(rt, i)
					vc.Ops = append(vc.Ops, op)
					m.apply(i, op)
				}
				c12RunAttempts(rt, r, cs, m.c, c12VaultAttempts(m), vc.Cfg.NUsers, c12VaultForeign(m))
			} else {
				lc := &lCase{Cfg: genLCfg(rt)}
				cs.L = lc
				m := newLMachine(rt, r, "C12", lc)
				n := rapid.IntRange(15, 50).Draw(rt, "nops")
				for i := 0; i < n; i++ {
					op := m.genOp(rt, i)
					lc.Ops = append(lc.Ops, op)
					m.apply(i, op)
				}
				// attackers: the liquidity providers, the market makers and two traders
				c12RunAttempts(rt, r, cs, m.c, c12LiquidityAttempts(m), lNumLP+lNumMM+2, c12LiquidityForeign(m))
				m.finish()
			}
		})
	})
}

func init() {
	replayers["C12.positions"] = func(t *testing.T, r *rec.Rec, raw json.RawMessage) {
		var cs c12Case
		if err := json.Unmarshal(raw, &cs); err != nil {
			t.Fatal(err)
		}
		r.Eval()
		if cs.World == "lend" {
			m := newLdMachine(t, r, "C12", cs.Ld)
			for i, op := range cs.Ld.Ops {
				m.apply(i, op)
			}
			c12RunAttempts(t, r, &cs, m.c, c12LendAttempts(m), cs.Ld.Cfg.NUsers, c12LendForeign(m))
		} else if cs.World == "vault" {
			m := newVMachine(t, r, "C12", cs.V)
			for i, op := range cs.V.Ops {
				m.apply(i, op)
			}
			c12RunAttempts(t, r, &cs, m.c, c12VaultAttempts(m), cs.V.Cfg.NUsers, c12VaultForeign(m))
		} else {
			m := newLMachine(t, r, "C12", cs.L)
			for i, op := range cs.L.Ops {
				m.apply(i, op)
			}
			c12RunAttempts(t, r, &cs, m.c, c12LiquidityAttempts(m), lNumLP+lNumMM+2, c12LiquidityForeign(m))
		}
	}
}

var _ = fmt.Sprint
