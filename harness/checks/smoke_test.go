package checks

import (
	"testing"
	"time"

	"verif/world"
)

func TestSmoke(t *testing.T) {
	t0 := time.Now()
	c := world.NewChain(world.Options{Seed: 1})
	t.Logf("new chain %v", time.Since(t0))
	t0 = time.Now()
	for i := 0; i < 20; i++ {
		c.NextBlock(5 * time.Second)
	}
	t.Logf("20 blocks %v height %d", time.Since(t0), c.Height)
	t0 = time.Now()
	for i := 0; i < 50; i++ {
		world.NewChain(world.Options{Seed: uint64(i)})
	}
	t.Logf("50 chains %v", time.Since(t0))
	world.CleanupHome()
}
