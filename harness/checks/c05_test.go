package checks

// C05 — batch matching conserves coins and never fills an order beyond its limits.
// Input search over order books, pools, last prices and tick precisions against
// an integer / rational oracle. The amm package is written against the
// amm.Order interface; the harness order type below copies the priority rules
// of types.UserOrder / types.PoolOrder and counts individual fills.

import (
	"encoding/json"
	"fmt"
	"math/big"
	"testing"

	sdkmath "cosmossdk.io/math"
	"pgregory.net/rapid"

	"github.com/comdex-official/comdex/x/liquidity/amm"
	liqtypes "github.com/comdex-official/comdex/x/liquidity/types"

	"verif/rec"
)

type hOrder struct {
	*amm.BaseOrder
	Pool    bool
	ID      uint64 // order id (user) or pool id (pool)
	BatchID uint64
	Fills   int
}

func (o *hOrder) GetBatchID() uint64 { return o.BatchID }
func (o *hOrder) SetOpenAmount(a sdkmath.Int) {
	o.Fills++
	o.BaseOrder.SetOpenAmount(a)
}
func (o *hOrder) HasPriority(other amm.Order) bool {
	if !o.Amount.Equal(other.GetAmount()) {
		return o.BaseOrder.HasPriority(other)
	}
	ot := other.(*hOrder)
	switch {
	case !o.Pool && !ot.Pool:
		return o.ID < ot.ID
	case !o.Pool && ot.Pool:
		return true
	case o.Pool && !ot.Pool:
		return false
	default:
		return o.ID < ot.ID
	}
}
func (o *hOrder) String() string {
	return fmt.Sprintf("hOrder(pool=%v,id=%d,batch=%d,%s,%s,%s,offer=%s)", o.Pool, o.ID, o.BatchID, o.Direction, o.Price, o.Amount, o.OfferCoinAmount)
}

type hPoolOrderer struct {
	amm.Pool
	ID     uint64
	orders *[]*hOrder
}

func (p *hPoolOrderer) Order(dir amm.OrderDirection, price sdkmath.LegacyDec, amt sdkmath.Int) amm.Order {
	o := &hOrder{BaseOrder: amm.NewBaseOrder(dir, price, amt, amm.OfferCoinAmount(dir, price, amt)), Pool: true, ID: p.ID}
	*p.orders = append(*p.orders, o)
	return o
}

type c05Order struct {
	Buy    bool   `json:"buy"`
	Tick   int    `json:"tick"` // offset from centre index
	Amt    string `json:"amt"`
	Extra  string `json:"extra"` // offer coin above the minimum (buys)
	Batch  uint64 `json:"batch"`
	ID     uint64 `json:"id"`
	amt    sdkmath.Int
	extra  sdkmath.Int
	hOrder *hOrder
}

type c05Pool struct {
	Ranged bool   `json:"ranged"`
	Rx     string `json:"rx"`
	Ry     string `json:"ry"`
	Min    string `json:"min,omitempty"`
	Max    string `json:"max,omitempty"`
}

type c05Case struct {
	Prec      int        `json:"tick_prec"`
	Centre    int        `json:"centre_index"`
	Last      string     `json:"last_price"` // "" = none
	LimitRate string     `json:"max_price_limit_ratio"`
	Orders    []c05Order `json:"orders"`
	Pools     []c05Pool  `json:"pools"`
}

var c05Amounts = []string{"1", "7", "99", "100", "101", "1000", "12345", "1000000", "999999999", "1000000000000", "1000000000000000000", "123456789012345678901234", "1000000000000000000000000000000"}

func pow10Int(n int) sdkmath.Int {
	return sdkmath.NewIntFromBigInt(new(big.Int).Exp(big.NewInt(10), big.NewInt(int64(n)), nil))
}

func genAmount(t *rapid.T, label string) sdkmath.Int {
	switch rapid.IntRange(0, 3).Draw(t, label+"_kind") {
	case 0:
		s := rapid.SampledFrom(c05Amounts).Draw(t, label+"_c")
		v, _ := sdkmath.NewIntFromString(s)
		return v
	case 1:
		return sdkmath.NewInt(rapid.Int64Range(1, 3000).Draw(t, label+"_s"))
	default:
		e := rapid.IntRange(2, 30).Draw(t, label+"_e")
		m := rapid.Int64Range(1, 9999).Draw(t, label+"_m")
		return pow10Int(e).MulRaw(m).QuoRaw(1000).AddRaw(rapid.Int64Range(0, 9).Draw(t, label+"_j"))
	}
}

func c05Gen(t *rapid.T) *c05Case {
	c := &c05Case{}
	c.Prec = rapid.IntRange(1, 4).Draw(t, "prec")
	exp := rapid.IntRange(-8, 8).Draw(t, "exp")
	base := sdkmath.LegacyOneDec()
	if exp >= 0 {
		base = sdkmath.LegacyNewDecFromInt(pow10Int(exp))
	} else {
		base = sdkmath.LegacyNewDecWithPrec(1, int64(-exp))
	}
	p := 1
	for i := 0; i < c.Prec; i++ {
		p *= 10
	}
	c.Centre = amm.TickToIndex(base, c.Prec) + rapid.IntRange(0, 9*p-1).Draw(t, "mant")
	spread := rapid.SampledFrom([]int{1, 2, 4, 8, 30}).Draw(t, "spread")
	nb := rapid.IntRange(0, 14).Draw(t, "nbuy")
	ns := rapid.IntRange(0, 14).Draw(t, "nsell")
	// amount regime: mixed, or all orders of similar magnitude (more partial fills)
	similar := rapid.Bool().Draw(t, "similar")
	var simBase sdkmath.Int
	if similar {
		simBase = genAmount(t, "simbase")
	}
	// with a price below one, amounts whose worth is around one quote coin sit on the edge of "too small to match"
	centreP := amm.TickFromIndex(c.Centre, c.Prec)
	var unitAmt sdkmath.Int
	if centreP.LT(sdkmath.LegacyOneDec()) && centreP.IsPositive() {
		unitAmt = sdkmath.LegacyOneDec().Quo(centreP).TruncateInt()
		if similar && rapid.IntRange(0, 2).Draw(t, "simunit") == 0 && unitAmt.IsPositive() {
			simBase = unitAmt.MulRaw(rapid.Int64Range(1, 30).Draw(t, "simunitmul"))
		}
	}
	id := uint64(1)
	mk := func(buy bool, i int) c05Order {
		o := c05Order{Buy: buy, ID: id}
		id++
		o.Tick = rapid.IntRange(-spread, spread).Draw(t, fmt.Sprintf("tick%d", id))
		if similar {
			o.amt = simBase.MulRaw(rapid.Int64Range(1, 40).Draw(t, fmt.Sprintf("mul%d", id))).QuoRaw(10).AddRaw(1)
		} else {
			o.amt = genAmount(t, fmt.Sprintf("amt%d", id))
		}
		if !unitAmt.IsNil() && unitAmt.IsPositive() && rapid.IntRange(0, 5).Draw(t, fmt.Sprintf("unit%d", id)) == 0 {
			// worth between half a quote coin and a few quote coins
			o.amt = unitAmt.MulRaw(rapid.Int64Range(1, 8).Draw(t, fmt.Sprintf("unitmul%d", id))).QuoRaw(2).AddRaw(rapid.Int64Range(0, 2).Draw(t, fmt.Sprintf("unitj%d", id)))
			if !o.amt.IsPositive() {
				o.amt = sdkmath.OneInt()
			}
		}
		o.Batch = uint64(rapid.SampledFrom([]int{0, 0, 1, 2, 2, 3, 5}).Draw(t, fmt.Sprintf("batch%d", id)))
		o.extra = sdkmath.ZeroInt()
		if buy {
			switch rapid.IntRange(0, 5).Draw(t, fmt.Sprintf("extra%d", id)) {
			case 0:
				o.extra = sdkmath.OneInt()
			case 1:
				o.extra = sdkmath.NewInt(7)
			}
		}
		o.Amt, o.Extra = o.amt.String(), o.extra.String()
		return o
	}
	for i := 0; i < nb; i++ {
		c.Orders = append(c.Orders, mk(true, i))
	}
	for i := 0; i < ns; i++ {
		c.Orders = append(c.Orders, mk(false, i))
	}
	switch rapid.IntRange(0, 3).Draw(t, "lastkind") {
	case 0:
		c.Last = ""
	case 1, 2:
		c.Last = amm.TickFromIndex(c.Centre+rapid.IntRange(-spread-1, spread+1).Draw(t, "lasttick"), c.Prec).String()
	case 3:
		c.Last = amm.TickFromIndex(c.Centre+rapid.IntRange(-200, 200).Draw(t, "lastfar"), c.Prec).String()
	}
	c.LimitRate = rapid.SampledFrom([]string{"0.1", "0.05", "0.01", "0.5"}).Draw(t, "limitratio")
	np := rapid.SampledFrom([]int{0, 0, 1, 1, 2, 3}).Draw(t, "npools")
	centrePrice := amm.TickFromIndex(c.Centre, c.Prec)
	for i := 0; i < np; i++ {
		pl := c05Pool{}
		ry := genAmount(t, fmt.Sprintf("pry%d", i)).AddRaw(100)
		// pool price = centre * (1 + k/1000), k in [-60, 60]
		k := rapid.Int64Range(-60, 60).Draw(t, fmt.Sprintf("pk%d", i))
		pp := centrePrice.Mul(sdkmath.LegacyNewDec(1000 + k)).QuoInt64(1000)
		rx := pp.MulInt(ry).TruncateInt()
		if !rx.IsPositive() {
			rx = sdkmath.OneInt()
		}
		pl.Rx, pl.Ry = rx.String(), ry.String()
		if rapid.Bool().Draw(t, fmt.Sprintf("pranged%d", i)) {
			pl.Ranged = true
			lo := rapid.Int64Range(1, 300).Draw(t, fmt.Sprintf("plo%d", i))
			hi := rapid.Int64Range(2, 300).Draw(t, fmt.Sprintf("phi%d", i))
			pl.Min = pp.Mul(sdkmath.LegacyNewDec(1000 - lo)).QuoInt64(1000).String()
			pl.Max = pp.Mul(sdkmath.LegacyNewDec(1000 + hi)).QuoInt64(1000).String()
		}
		c.Pools = append(c.Pools, pl)
	}
	return c
}

func mustInt(s string) sdkmath.Int {
	v, ok := sdkmath.NewIntFromString(s)
	if !ok {
		panic("bad int " + s)
	}
	return v
}

// c05Run executes one case against the real matching engine and checks the oracle.
// c05Match builds the order book and pools of a case and runs the matching engine on them.
type c05Outcome struct {
	all           []*hOrder
	undistributed sdkmath.Int
	quoteDiff     sdkmath.Int
	matchPrice    sdkmath.LegacyDec
	matched       bool
	dirClass      string
}

func c05Match(r *rec.Rec, c *c05Case) *c05Outcome {
	out := &c05Outcome{}
	var all []*hOrder
	ob := amm.NewOrderBook()
	for i := range c.Orders {
		o := &c.Orders[i]
		amt, extra := mustInt(o.Amt), mustInt(o.Extra)
		price := amm.TickFromIndex(c.Centre+o.Tick, c.Prec)
		dir := amm.Sell
		if o.Buy {
			dir = amm.Buy
		}
		offer := amm.OfferCoinAmount(dir, price, amt)
		if o.Buy {
			offer = offer.Add(extra)
		}
		h := &hOrder{BaseOrder: amm.NewBaseOrder(dir, price, amt, offer), ID: o.ID, BatchID: o.Batch}
		o.hOrder = h
		all = append(all, h)
		ob.AddOrder(h)
	}
	var pools []*hPoolOrderer
	for i, pl := range c.Pools {
		rx, ry := mustInt(pl.Rx), mustInt(pl.Ry)
		var p amm.Pool
		if pl.Ranged {
			minP, maxP := sdkmath.LegacyMustNewDecFromStr(pl.Min), sdkmath.LegacyMustNewDecFromStr(pl.Max)
			cur := rx.ToLegacyDec().Quo(ry.ToLegacyDec())
			if amm.ValidateRangedPoolParams(minP, maxP, cur) != nil {
				if r != nil {
					r.Class("ranged-params-inadmissible-skipped")
				}
				continue
			}
			rp, err := amm.CreateRangedPool(rx, ry, minP, maxP, cur)
			if err != nil {
				continue
			}
			p = rp
		} else {
			bp, err := amm.CreateBasicPool(rx, ry)
			if err != nil {
				continue
			}
			p = bp
		}
		if p.IsDepleted() {
			continue
		}
		pools = append(pools, &hPoolOrderer{Pool: p, ID: uint64(i + 1), orders: &all})
	}

	undistributed := sdkmath.ZeroInt()
	amm.VerifUndistributed = func(rem sdkmath.Int) { undistributed = undistributed.Add(rem) }
	defer func() { amm.VerifUndistributed = nil }()
	var quoteDiff sdkmath.Int
	var matchPrice sdkmath.LegacyDec
	matched := false
	dirClass := "nolast"
	if c.Last == "" {
		ov := amm.MultipleOrderViews{ob.MakeView()}
		for _, p := range pools {
			ov = append(ov, p)
		}
		mp, found := amm.FindMatchPrice(ov, c.Prec)
		if found {
			matchPrice = mp
			for _, p := range pools {
				if a := p.BuyAmountOver(mp, true); a.IsPositive() {
					ob.AddOrder(p.Order(amm.Buy, mp, a))
				}
				if a := p.SellAmountUnder(mp, true); a.IsPositive() {
					ob.AddOrder(p.Order(amm.Sell, mp, a))
				}
			}
			quoteDiff, matched = ob.MatchAtSinglePrice(mp)
		}
	} else {
		last := sdkmath.LegacyMustNewDecFromStr(c.Last)
		lo, hi := liqtypes.PriceLimits(last, sdkmath.LegacyMustNewDecFromStr(c.LimitRate), c.Prec)
		for _, p := range pools {
			ob.AddOrder(amm.PoolOrders(p, p, lo, hi, c.Prec)...)
		}
		dirClass = ob.PriceDirection(last).String()
		matchPrice, quoteDiff, matched = ob.Match(last)
	}

	out.all, out.undistributed, out.quoteDiff, out.matchPrice, out.matched, out.dirClass = all, undistributed, quoteDiff, matchPrice, matched, dirClass
	return out
}

func c05Run(t rec.TB, r *rec.Rec, c *c05Case) {
	r.Eval()
	oc := c05Match(r, c)
	all, undistributed, quoteDiff, matched, dirClass := oc.all, oc.undistributed, oc.quoteDiff, oc.matched, oc.dirClass
	_, _, _, _ = undistributed, quoteDiff, matched, dirClass
	// ---- oracle ----
	zero := sdkmath.ZeroInt()
	buyRecv, sellPaid, buyPaid, sellRecv := zero, zero, zero, zero
	fills, buyTicks, sellTicks := 0, map[string]bool{}, map[string]bool{}
	partial, poolMatched := false, false
	batches := map[uint64]bool{}
	for _, o := range all {
		ctx := "user"
		if o.Pool {
			ctx = "pool"
		}
		paid, recv := o.GetPaidOfferCoinAmount(), o.GetReceivedDemandCoinAmount()
		filled := o.Amount.Sub(o.GetOpenAmount())
		if o.GetOpenAmount().IsNegative() || filled.IsNegative() {
			r.Fail(t, "C05.fill-within-amount", ctx, c, "order %s open=%s filled=%s", o, o.GetOpenAmount(), filled)
		}
		if paid.GT(o.OfferCoinAmount) {
			r.Fail(t, "C05.paid-within-offer", ctx, c, "order %s paid %s > offer %s", o, paid, o.OfferCoinAmount)
		}
		if paid.IsNegative() || recv.IsNegative() {
			r.Fail(t, "C05.nonnegative", ctx, c, "order %s paid=%s received=%s", o, paid, recv)
		}
		if o.Fills == 0 {
			if !paid.IsZero() || !recv.IsZero() || !filled.IsZero() {
				r.Fail(t, "C05.unfilled-untouched", ctx, c, "order %s has no fills but paid=%s recv=%s filled=%s", o, paid, recv, filled)
			}
			continue
		}
		fills += o.Fills
		if o.Pool {
			poolMatched = true
		}
		if o.GetOpenAmount().IsPositive() {
			partial = true
		}
		batches[o.BatchID] = true
		// limit price within one quote unit per fill, exact rationals
		limitTimesFilled := new(big.Rat).Mul(decRat(o.Price), new(big.Rat).SetInt(filled.BigInt()))
		nf := new(big.Rat).SetInt64(int64(o.Fills))
		if o.Direction == amm.Buy {
			buyTicks[o.Price.String()] = true
			buyRecv, buyPaid = buyRecv.Add(recv), buyPaid.Add(paid)
			if !recv.Equal(filled) {
				r.Fail(t, "C05.buy-receives-filled", ctx, c, "order %s received %s != filled %s", o, recv, filled)
			}
			bound := new(big.Rat).Add(limitTimesFilled, nf)
			if new(big.Rat).SetInt(paid.BigInt()).Cmp(bound) > 0 {
				r.Fail(t, "C05.buy-limit-price", ctx, c, "order %s paid %s > limit*filled+fills = %s", o, paid, bound.FloatString(3))
			}
		} else {
			sellTicks[o.Price.String()] = true
			sellPaid, sellRecv = sellPaid.Add(paid), sellRecv.Add(recv)
			if !paid.Equal(filled) {
				r.Fail(t, "C05.sell-pays-filled", ctx, c, "order %s paid %s != filled %s", o, paid, filled)
			}
			bound := new(big.Rat).Sub(limitTimesFilled, nf)
			if new(big.Rat).SetInt(recv.BigInt()).Cmp(bound) < 0 {
				r.Fail(t, "C05.sell-limit-price", ctx, c, "order %s received %s < limit*filled-fills = %s", o, recv, bound.FloatString(3))
			}
		}
		if o.IsMatched() && !recv.IsPositive() {
			r.Fail(t, "C05.matched-receives-positive", ctx, c, "order %s matched but received %s", o, recv)
		}
	}
	if !buyRecv.Equal(sellPaid) {
		ctx := dirClass
		if buyRecv.GT(sellPaid) && undistributed.IsPositive() && buyRecv.Sub(sellPaid).Equal(undistributed) {
			// Root cause of known finding C05-F1, observed at its site through the
			// verif hook: the pro-rata pass dropped sell orders whose share was worth
			// zero quote coin and could not place exactly this much on the others.
			ctx = "sell-prorata-zero-quote-drop"
		}
		r.Fail(t, "C05.base-conservation", ctx, c, "buyers received %s base, sellers paid %s", buyRecv, sellPaid)
	}
	d := buyPaid.Sub(sellRecv)
	if d.IsNegative() {
		r.Fail(t, "C05.quote-nonnegative", dirClass, c, "buyers paid %s quote < sellers received %s", buyPaid, sellRecv)
	}
	if fills > 0 {
		if !matched {
			r.Fail(t, "C05.matched-flag", dirClass, c, "orders were filled but matched=false")
		}
		if !d.Equal(quoteDiff) {
			r.Fail(t, "C05.quote-diff-reported", dirClass, c, "dust %s but engine reported %s", d, quoteDiff)
		}
		if !d.LT(sdkmath.NewInt(int64(fills))) {
			r.Fail(t, "C05.dust-below-fills", dirClass, c, "dust %s >= #fills %d", d, fills)
		}
	} else if !d.IsZero() {
		r.Fail(t, "C05.quote-diff-reported", dirClass, c, "no fills but dust %s", d)
	}

	// ---- classification ----
	if fills == 0 {
		r.Class("unmatched")
		return
	}
	r.Class("matched")
	r.Class("dir:" + dirClass)
	if poolMatched {
		r.Class("pool-order-filled")
	}
	if partial {
		r.Class("partial-fill")
	}
	if len(buyTicks) >= 2 && len(sellTicks) >= 2 && partial && (poolMatched || len(batches) >= 2) {
		r.NonTrivial(c)
	}
}

func decRat(d sdkmath.LegacyDec) *big.Rat {
	return new(big.Rat).SetFrac(d.BigInt(), new(big.Int).Exp(big.NewInt(10), big.NewInt(18), nil))
}

func TestC05_match(t *testing.T) {
	r := rec.New("C05", "match")
	t.Cleanup(r.Flush)
	rapid.Check(t, func(rt *rapid.T) {
		c := c05Gen(rt)
		r.Guard(func() { c05Run(rt, r, c) })
	})
}

func init() {
	replayers["C05.match"] = func(t *testing.T, r *rec.Rec, raw json.RawMessage) {
		var c c05Case
		if err := json.Unmarshal(raw, &c); err != nil {
			t.Fatal(err)
		}
		c05Run(t, r, &c)
	}
}
