package checks

import (
	"sort"
	"time"

	sdk "github.com/cosmos/cosmos-sdk/types"

	auctypes "github.com/comdex-official/comdex/x/auctionsV2/types"
)

// premiumAfter predicts the discount, in whole percent of the oracle price, that a dutch auction posts in a
// block dt seconds from now (the price curve of UpdateDutchAuction); false when the auction will have ended,
// when the price will still be at or above the oracle price, or when the discount is beyond the largest one a
// limit bid may name. Used only to steer generated limit bids towards being executed.
func premiumAfter(a auctypes.Auction, now time.Time, dt int64, oracle uint64, duration uint64, discount sdk.Dec) (int64, bool) {
	at := now.Add(time.Duration(dt) * time.Second)
	if at.After(a.EndTime) || oracle == 0 || !a.CollateralTokenInitialPrice.IsPositive() {
		return 0, false
	}
	den := a.CollateralTokenInitialPrice.Sub(a.CollateralTokenInitialPrice.Mul(discount))
	if !den.IsPositive() {
		return 0, false
	}
	t0 := a.CollateralTokenInitialPrice.MulInt64(int64(duration)).Quo(den).TruncateInt64()
	if t0 <= 0 {
		return 0, false
	}
	el := int64(at.Sub(a.StartTime).Seconds())
	price := a.CollateralTokenInitialPrice.MulInt64(t0 - el).QuoInt64(t0)
	o := sdk.NewDec(int64(oracle))
	if !o.GT(price) {
		return 0, false
	}
	p := o.Sub(price).Quo(o).MulInt64(100).TruncateInt64()
	if p > int64(auctypes.MaxPremiumDiscount) {
		return 0, false
	}
	return p, true
}

// sortedKeys returns the keys of a counter map in a fixed order.
func sortedKeys(m map[string]int) []string {
	out := make([]string, 0, len(m))
	for k := range m {
		out = append(out, k)
	}
	sort.Strings(out)
	return out
}
