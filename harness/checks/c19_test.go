package checks

// C19 — incentive payouts never exceed their funding and follow farmed share.
//
// split: SplitTotalAmountPerEpoch over generated and exhaustively enumerated
// (total, epochs): the allocations sum exactly to the deposit, there is one per
// epoch and they differ by at most one.
//
// gauges: the liquidity machine (pools, deposits, farming with its queue,
// trades that move reserves and collect swap fees) extended with gauge
// creation (plain and master/child, generated deposit / epoch count / epoch
// length / start), oracle price changes and epoch-length blocks including
// gaps that skip epochs. Between the end-block of a block and the begin-block
// of the next the farmers' positions are read; after the begin-block every
// gauge's progress, every account's reward-denom balance and the rewards
// custody are compared with a reference computed in exact rational arithmetic.

import (
	"encoding/json"
	"fmt"
	"math/big"
	"sort"
	"testing"
	"time"

	sdk "github.com/cosmos/cosmos-sdk/types"
	authtypes "github.com/cosmos/cosmos-sdk/x/auth/types"
	"pgregory.net/rapid"

	"github.com/comdex-official/comdex/x/liquidity/amm"
	rewardskeeper "github.com/comdex-official/comdex/x/rewards/keeper"
	rewardstypes "github.com/comdex-official/comdex/x/rewards/types"

	"verif/rec"
)

// ---------- split ----------

type c19Split struct {
	Total  uint64 `json:"total"`
	Epochs uint64 `json:"epochs"`
}

func c19CheckSplit(t rec.TB, r *rec.Rec, c c19Split) {
	r.Eval()
	if c.Epochs == 0 || c.Total < c.Epochs {
		return // not a gauge the module accepts (deposit >= epochs >= 1)
	}
	s := rewardskeeper.SplitTotalAmountPerEpoch(c.Total, c.Epochs)
	if uint64(len(s)) != c.Epochs {
		r.Fail(t, "C19.one-allocation-per-epoch", "split", c, "%d allocations for %d epochs", len(s), c.Epochs)
	}
	sum := new(big.Int)
	lo, hi := s[0], s[0]
	for _, a := range s {
		sum.Add(sum, new(big.Int).SetUint64(a))
		if a < lo {
			lo = a
		}
		if a > hi {
			hi = a
		}
	}
	if sum.Cmp(new(big.Int).SetUint64(c.Total)) != 0 {
		r.Fail(t, "C19.allocations-sum-to-deposit", "split", c, "allocations sum to %s, deposit %d", sum, c.Total)
	}
	if hi-lo > 1 {
		r.Fail(t, "C19.allocations-even", "split", c, "allocations range from %d to %d", lo, hi)
	}
	if c.Total%c.Epochs != 0 {
		r.NonTrivial(c)
	}
}

func TestC19_split(t *testing.T) {
	r := rec.New("C19", "split")
	t.Cleanup(r.Flush)
	rapid.Check(t, func(rt *rapid.T) {
		var c c19Split
		switch rapid.IntRange(0, 3).Draw(rt, "shape") {
		case 0:
			c.Epochs = rapid.Uint64Range(1, 400).Draw(rt, "epochs")
			c.Total = c.Epochs + rapid.Uint64Range(0, 3*c.Epochs).Draw(rt, "extra")
		case 1:
			c.Epochs = rapid.Uint64Range(1, 100000).Draw(rt, "epochs")
			c.Total = rapid.Uint64Range(c.Epochs, 1<<62).Draw(rt, "total")
		case 2:
			c.Epochs = rapid.Uint64Range(1, 1000).Draw(rt, "epochs")
			c.Total = ^uint64(0) - rapid.Uint64Range(0, 2000).Draw(rt, "below-max")
		default:
			c.Epochs = rapid.Uint64Range(1, 5000).Draw(rt, "epochs")
			c.Total = c.Epochs*rapid.Uint64Range(1, 1<<40).Draw(rt, "q") + rapid.Uint64Range(0, c.Epochs-1+1).Draw(rt, "r")
		}
		r.Guard(func() { c19CheckSplit(rt, r, c) })
	})
}

func TestC19_splitexhaustive(t *testing.T) {
	r := rec.New("C19", "splitexhaustive")
	t.Cleanup(r.Flush)
	r.Note("domain", "every (deposit, epochs) with 1 <= epochs <= 64 and epochs <= deposit <= 4*epochs+64")
	r.Guard(func() {
		for e := uint64(1); e <= 64; e++ {
			for tot := e; tot <= 4*e+64; tot++ {
				c19CheckSplit(t, r, c19Split{tot, e})
			}
		}
		r.SetExhaustive(true)
	})
}

// ---------- gauges on the liquidity machine ----------

type c19Gauge struct {
	g       rewardstypes.Gauge
	deposit sdk.Int // deposit at creation (plain gauges)
	paid    sdk.Int // sum of observed payouts bound
}

type c19State struct {
	gauges  map[uint64]*c19Gauge
	denoms  []string
	nEpochs int // observed epoch distributions that paid at least one farmer
	nMulti  int // ... with at least two paid farmers
	nMaster int
	nSkip   int
	// denominations that became swap-fee distribution denominations by a parameter change
	extraDenoms map[string]bool
}

var c19RewardDenoms = []string{"urwda", "urwdb"}

func rewardsAddr() sdk.AccAddress { return authtypes.NewModuleAddress(rewardstypes.ModuleName) }

func (m *lMachine) c19Init() {
	m.c19 = &c19State{gauges: map[uint64]*c19Gauge{}, extraDenoms: map[string]bool{}}
	for _, u := range m.c.Accs[:lNumLP+lNumMM] {
		for _, d := range c19RewardDenoms {
			m.c.Fund(u.Addr, sdk.NewCoins(sdk.NewCoin(d, mustInt("1000000000000000000000000"))))
		}
	}
	m.c19Sync(-1)
}

// c19Sync records gauges that appeared (pool creation registers a swap-fee gauge).
func (m *lMachine) c19Sync(i int) {
	for _, g := range m.c.App.Rewardskeeper.GetAllGauges(m.c.Ctx) {
		if _, ok := m.c19.gauges[g.Id]; !ok {
			m.c19.gauges[g.Id] = &c19Gauge{g: g, deposit: g.DepositAmount.Amount, paid: sdk.ZeroInt()}
		}
	}
}

func (m *lMachine) c19GenOp(rt *rapid.T, i int, k string) lOp {
	cfg := &m.cs.Cfg
	lbl := func(s string) string { return fmt.Sprintf("%s_%d", s, i) }
	op := lOp{K: k}
	switch k {
	case "epoch":
		op.K = "block"
		op.Dt = rapid.SampledFrom([]int64{43200, 43201, 43201, 43201, 86400, 86401, 86401, 86401, 90000, 200000}).Draw(rt, lbl("dt"))
	case "oprice":
		op.Pair = rapid.IntRange(0, len(cfg.Denoms)-1).Draw(rt, lbl("denom"))
		op.Extra = rapid.SampledFrom([]int64{1000000, 1000000, 2500000, 1, 123456789012, 0}).Draw(rt, lbl("price"))
		op.Buy = rapid.IntRange(0, 3).Draw(rt, lbl("active")) > 0
		if rapid.IntRange(0, 3).Draw(rt, lbl("unlist")) == 0 {
			op.Extra, op.Buy = 0, false // no usable price at all for this denomination
		}
		// a swap-fee gauge that holds fees, on a pair with several pools: its fee transfer needs both prices while the
		// distribution needs one; steer towards taking exactly one of them away
		for _, g := range m.c.App.Rewardskeeper.GetAllGauges(m.c.Ctx) {
			if !g.ForSwapFee || !g.DepositAmount.IsPositive() {
				continue
			}
			pool, ok := m.k.GetPool(m.c.Ctx, g.AppId, g.GetLiquidityMetaData().PoolId)
			if !ok || len(m.k.GetPoolsByPair(m.c.Ctx, g.AppId, pool.PairId)) < 2 {
				continue
			}
			if rapid.IntRange(0, 1).Draw(rt, lbl("steer")) == 0 {
				pair, _ := m.k.GetPair(m.c.Ctx, g.AppId, pool.PairId)
				d := pair.BaseCoinDenom
				if rapid.Bool().Draw(rt, lbl("side")) {
					d = pair.QuoteCoinDenom
				}
				for j, x := range cfg.Denoms {
					if x == d {
						op.Pair = j
					}
				}
				op.Extra, op.Buy = 0, false
			}
			break
		}
	case "distr":
		// governance changes the denomination swap fees are distributed in
		op.Pair = rapid.IntRange(0, len(cfg.Apps)-1).Draw(rt, lbl("app"))
		op.B = rapid.SampledFrom([]string{"ucmdx", "uaaa", "ubbb", "uccc"}).Draw(rt, lbl("denom"))
	case "gauge":
		if len(m.pools) == 0 {
			return lOp{K: "block", Dt: 5}
		}
		op.Pool = rapid.IntRange(0, len(m.pools)-1).Draw(rt, lbl("pool"))
		op.Actor = rapid.IntRange(0, lNumLP-1).Draw(rt, lbl("from"))
		op.Extra = rapid.SampledFrom([]int64{1, 1, 2, 3, 3, 7, 11, 0}).Draw(rt, lbl("triggers"))
		op.A = rapid.SampledFrom([]string{"1", "2", "7", "10", "100", "1000", "1001", "999999", "1000000", "123456789", "1000000000000", "9007199254740993", "4611686018427387904"}).Draw(rt, lbl("deposit"))
		op.Life = rapid.SampledFrom([]int64{43200, 43200, 86400, 43201}).Draw(rt, lbl("duration"))
		op.Dt = rapid.SampledFrom([]int64{0, 1, 1, 3600, 100000}).Draw(rt, lbl("startin"))
		op.B = rapid.SampledFrom(c19RewardDenoms).Draw(rt, lbl("denom"))
		op.Buy = rapid.IntRange(0, 2).Draw(rt, lbl("master")) == 0
		if op.Buy {
			op.Order = rapid.IntRange(0, 7).Draw(rt, lbl("children")) // bit mask over the machine's pools of the same app; 0 = all other pools
		}
	}
	return op
}

func (m *lMachine) c19Apply(i int, op lOp) {
	c, cfg := m.c, &m.cs.Cfg
	switch op.K {
	case "oprice":
		for _, a := range c.App.AssetKeeper.GetAssets(c.Ctx) {
			if a.Denom == cfg.Denoms[op.Pair] {
				c.SetPrice(a.Id, uint64(op.Extra), op.Buy)
			}
		}
		m.ok["oprice"]++
	case "feegift":
		// anybody can send coins to a pair's swap-fee collector; here: the app's fee-distribution token, which the
		// swap-fee gauges of the pair's pools share out at the next epoch
		lp := cfg.Pairs[op.Pair]
		app := cfg.Apps[lp.App].ID
		if params, err := m.k.GetGenericParams(c.Ctx, app); err == nil {
			if pair, ok := m.k.GetPair(c.Ctx, app, lp.ID); ok {
				from := c.Accs[op.Actor].Addr
				coin := sdk.NewCoin(params.SwapFeeDistrDenom, mustInt(op.A))
				if op.B != "" {
					coin.Denom = op.B // another token: the 150-block conversion has to swap it into the distribution token
				}
				if c.Bal(from, coin.Denom).GTE(coin.Amount) {
					if err := c.App.BankKeeper.SendCoins(c.Ctx, from, pair.GetSwapFeeCollectorAddress(), sdk.NewCoins(coin)); err == nil {
						m.ok["feegift"]++
					}
				}
			}
		}
	case "distr":
		if err := m.k.UpdateGenericParams(c.Ctx, cfg.Apps[op.Pair].ID, []string{"SwapFeeDistrDenom"}, []string{op.B}); err == nil {
			m.ok["distr"]++
			m.c19.extraDenoms[op.B] = true
		}
	case "gauge":
		pr := m.pools[op.Pool]
		msg := rewardstypes.NewMsgCreateGauge(pr.app, c.Accs[op.Actor].Addr, c.Ctx.BlockTime().Add(time.Duration(op.Dt)*time.Second), rewardstypes.LiquidityGaugeTypeID,
			time.Duration(op.Life)*time.Second, sdk.NewCoin(op.B, mustInt(op.A)), uint64(op.Extra))
		meta := &rewardstypes.LiquidtyGaugeMetaData{PoolId: pr.id, IsMasterPool: op.Buy}
		if op.Buy {
			for j, q := range m.pools {
				if q.app == pr.app && q.id != pr.id && op.Order&(1<<uint(j%3)) != 0 {
					meta.ChildPoolIds = append(meta.ChildPoolIds, q.id)
				}
			}
		}
		msg.Kind = &rewardstypes.MsgCreateGauge_LiquidityMetaData{LiquidityMetaData: meta}
		before := c.Bal(rewardsAddr(), op.B)
		if _, err := c.Deliver(msg); err == nil {
			m.ok["gauge"]++
			dep := mustInt(op.A)
			if got := c.Bal(rewardsAddr(), op.B).Sub(before); !got.Equal(dep) {
				m.fail("C19.gauge-deposit-reaches-custody", "create", "step %d: gauge deposit %s, rewards custody grew by %s", i, dep, got)
			}
			// an accepted gauge must be able to hand its whole deposit out: its allocations have to sum to it
			n := uint64(op.Extra)
			if n == 0 {
				m.fail("C19.allocations-sum-to-deposit", "zero-epochs", "step %d: a gauge with deposit %s and 0 epochs was accepted: it has no allocation, its deposit can never be paid out", i, dep)
			} else if dep.IsUint64() {
				sum := new(big.Int)
				for _, a := range rewardskeeper.SplitTotalAmountPerEpoch(dep.Uint64(), n) {
					sum.Add(sum, new(big.Int).SetUint64(a))
				}
				if sum.Cmp(dep.BigInt()) != 0 {
					m.fail("C19.allocations-sum-to-deposit", "create", "step %d: allocations of gauge (%s over %d epochs) sum to %s", i, dep, n, sum)
				}
			} else {
				m.r.Class("gauge-deposit-beyond-uint64-accepted")
			}
		}
		m.c19Sync(i)
	}
}

// c19Snap is the state the begin-block distribution works on.
type c19Snap struct {
	bal     map[string]sdk.Int // account/denom
	custody map[string]sdk.Int
	values  map[uint64]map[string]*big.Rat // pool id -> farmer -> value (micro-USD); nil map = pool cannot be valued
	gauges  map[uint64]rewardstypes.Gauge
	epochs  map[time.Duration]rewardstypes.EpochInfo
}

func (m *lMachine) c19AllDenoms() []string {
	out := append(append([]string{}, c19RewardDenoms...), "ucmdx")
	add := func(x string) {
		for _, d := range out {
			if d == x {
				return
			}
		}
		out = append(out, x)
	}
	for _, a := range m.cs.Cfg.Apps {
		if a.DistrDenom != "" {
			add(a.DistrDenom)
		}
	}
	for _, d := range m.cs.Cfg.Denoms { // stable order
		if m.c19.extraDenoms[d] {
			add(d)
		}
	}
	return out
}

// poolValues: value of every active farmer's position in one pool, the way the property defines farmed value:
// what the farmed pool coins redeem for, on the side of the pair that has an oracle price, at that price, times two.
func (m *lMachine) c19PoolValues(app, poolID uint64) map[string]*big.Rat {
	c := m.c
	pool, ok := m.k.GetPool(c.Ctx, app, poolID)
	if !ok || pool.Disabled {
		return nil
	}
	pair, _ := m.k.GetPair(c.Ctx, app, pool.PairId)
	rx, ry := m.k.GetPoolBalances(c.Ctx, pool)
	ps := m.k.GetPoolCoinSupply(c.Ctx, pool)
	if pool.AMMPool(rx.Amount, ry.Amount, ps).IsDepleted() {
		return nil
	}
	price := func(denom string) (uint64, sdk.Int, bool) {
		for _, a := range c.App.AssetKeeper.GetAssets(c.Ctx) {
			if a.Denom == denom {
				tw, found := c.App.MarketKeeper.GetTwa(c.Ctx, a.Id)
				if !found || (!tw.IsPriceActive && tw.Twa == 0) {
					return 0, sdk.Int{}, false
				}
				return tw.Twa, a.Decimals, true
			}
		}
		return 0, sdk.Int{}, false
	}
	useQuote := true
	p, dec, found := price(pair.QuoteCoinDenom)
	if !found {
		useQuote = false
		p, dec, found = price(pair.BaseCoinDenom)
		if !found {
			return nil
		}
	}
	out := map[string]*big.Rat{}
	for _, f := range m.k.GetAllActiveFarmers(c.Ctx, app, poolID) {
		x, y := amm.Withdraw(rx.Amount, ry.Amount, ps, f.FarmedPoolCoin.Amount, sdk.ZeroDec())
		if x.IsZero() && y.IsZero() {
			continue
		}
		amt := x
		if !useQuote {
			amt = y
		}
		v := new(big.Rat).SetFrac(new(big.Int).Mul(amt.BigInt(), new(big.Int).SetUint64(p)), dec.BigInt())
		if p == 0 {
			v = new(big.Rat) // a zero price values the position at nothing
		}
		out[f.Farmer] = v.Mul(v, big.NewRat(2, 1))
	}
	return out
}

func (m *lMachine) c19Pre() *c19Snap {
	c := m.c
	s := &c19Snap{bal: map[string]sdk.Int{}, custody: map[string]sdk.Int{}, values: map[uint64]map[string]*big.Rat{}, gauges: map[uint64]rewardstypes.Gauge{}, epochs: map[time.Duration]rewardstypes.EpochInfo{}}
	for _, u := range c.Accs[:lNumLP+lNumMM] {
		for _, d := range m.c19AllDenoms() {
			s.bal[u.Addr.String()+"/"+d] = c.Bal(u.Addr, d)
		}
	}
	for _, d := range m.c19AllDenoms() {
		s.custody[d] = c.Bal(rewardsAddr(), d)
	}
	for _, g := range c.App.Rewardskeeper.GetAllGauges(c.Ctx) {
		s.gauges[g.Id] = g
	}
	for _, e := range c.App.Rewardskeeper.GetAllEpochInfos(c.Ctx) {
		s.epochs[e.Duration] = e
	}
	return s
}

func ratOfInt(i sdk.Int) *big.Rat { return new(big.Rat).SetInt(i.BigInt()) }

// c19Post compares the begin-block distribution with the reference.
func (m *lMachine) c19Post(i int, pre *c19Snap, values func(app, pool uint64) map[string]*big.Rat) {
	c := m.c
	tol := new(big.Rat).SetFrac(big.NewInt(1_000_000_000_001), big.NewInt(1_000_000_000_000)) // 1 + 1e-12
	bound := map[string]*big.Rat{}                                                            // account/denom -> upper bound of what it may have received
	allocSum := map[string]sdk.Int{}
	for _, d := range m.c19AllDenoms() {
		allocSum[d] = sdk.ZeroInt()
	}
	for _, g := range c.App.Rewardskeeper.GetAllGauges(c.Ctx) {
		was, existed := pre.gauges[g.Id]
		if !existed {
			continue
		}
		ctxs := "plain"
		if g.ForSwapFee {
			ctxs = "swap-fee"
		} else if g.GetLiquidityMetaData().IsMasterPool {
			ctxs = "master"
		}
		dTrig := int64(g.TriggeredCount) - int64(was.TriggeredCount)
		if dTrig < 0 || dTrig > 1 {
			m.fail("C19.one-epoch-per-trigger", ctxs, "step %d: gauge %d triggered count went %d -> %d in one block", i, g.Id, was.TriggeredCount, g.TriggeredCount)
		}
		var alloc, paid sdk.Int
		denom := was.DepositAmount.Denom
		if !g.ForSwapFee {
			paid = g.DistributedAmount.Amount.Sub(was.DistributedAmount.Amount)
			alloc = sdk.ZeroInt()
			if dTrig == 1 {
				if !was.DepositAmount.Amount.IsUint64() {
					m.fail("C19.epoch-pays-at-most-its-allocation", ctxs, "step %d: gauge %d with deposit %s beyond 64 bits triggered", i, g.Id, was.DepositAmount.Amount)
				}
				// reference split: deposit = q*n + r, r epochs get q+1; which epochs is the module's choice, so the epoch's
				// allocation is taken from the module's own split, whose sum and evenness the split sub establishes
				alloc = sdk.NewIntFromUint64(rewardskeeper.SplitTotalAmountPerEpoch(was.DepositAmount.Amount.Uint64(), was.TotalTriggers)[was.TriggeredCount])
			}
			if paid.IsNegative() || paid.GT(alloc) {
				m.fail("C19.epoch-pays-at-most-its-allocation", ctxs, "step %d: gauge %d epoch %d booked %s, allocation %s", i, g.Id, was.TriggeredCount+1, paid, alloc)
			}
			if g.DistributedAmount.Amount.GT(g.DepositAmount.Amount) {
				m.fail("C19.cumulative-paid-within-deposit", ctxs, "step %d: gauge %d distributed %s of deposit %s", i, g.Id, g.DistributedAmount.Amount, g.DepositAmount.Amount)
			}
			if !g.DepositAmount.Equal(was.DepositAmount) || g.TotalTriggers != was.TotalTriggers {
				m.fail("C19.gauge-terms-fixed", ctxs, "step %d: gauge %d terms changed", i, g.Id)
			}
		} else {
			// swap-fee gauge: pays out what it holds (collected in the previous epoch), then takes in this epoch's fees
			alloc = sdk.ZeroInt()
			if dTrig == 1 || !g.DistributedAmount.Equal(was.DistributedAmount) {
				alloc = was.DepositAmount.Amount
			}
			paid = alloc // upper bound of what it may hand to farmers
			if alloc.IsPositive() {
				m.r.Class("swap-fee-gauge-distribution")
				if dTrig == 0 {
					m.r.Class("swap-fee-gauge-distributed-but-epoch-not-booked")
				}
			}
		}
		if !alloc.IsPositive() {
			continue
		}
		allocSum[denom] = allocSum[denom].Add(alloc)
		// pro-rata bounds
		meta := g.GetLiquidityMetaData()
		vals := values(g.AppId, meta.PoolId)
		elig := map[string]*big.Rat{}
		for f, v := range vals {
			elig[f] = v
		}
		if meta.IsMasterPool && !g.ForSwapFee {
			var children []uint64
			if len(meta.ChildPoolIds) == 0 {
				for _, p := range m.k.GetAllPools(c.Ctx, g.AppId) {
					if p.Id != meta.PoolId && !p.Disabled {
						children = append(children, p.Id)
					}
				}
			} else {
				for _, id := range meta.ChildPoolIds {
					if id != meta.PoolId {
						children = append(children, id)
					}
				}
			}
			if len(children) > 0 {
				m.c19.nMaster++
				for f, v := range vals {
					sum := new(big.Rat)
					in := 0
					for _, ch := range children {
						if cv := values(g.AppId, ch); cv != nil {
							if x, ok := cv[f]; ok {
								sum.Add(sum, x)
								in++
							}
						}
					}
					if in >= 2 {
						m.r.Class("master-gauge-farmer-active-in-several-child-pools")
					}
					if sum.Cmp(v) < 0 {
						elig[f] = sum
					}
				}
			}
		}
		total := new(big.Rat)
		for _, v := range elig {
			total.Add(total, v)
		}
		for f, v := range elig {
			if total.Sign() == 0 {
				break
			}
			b := new(big.Rat).Mul(ratOfInt(alloc), new(big.Rat).Quo(v, total))
			b.Mul(b, tol)
			k := f + "/" + denom
			if bound[k] == nil {
				bound[k] = new(big.Rat)
			}
			bound[k].Add(bound[k], b)
		}
	}
	// what every account received in this begin-block
	paidOut := map[string]sdk.Int{}
	for _, d := range m.c19AllDenoms() {
		paidOut[d] = sdk.ZeroInt()
	}
	nPaid := 0
	for _, u := range c.Accs[:lNumLP+lNumMM] {
		for _, d := range m.c19AllDenoms() {
			k := u.Addr.String() + "/" + d
			got := c.Bal(u.Addr, d).Sub(pre.bal[k])
			if got.IsNegative() {
				m.fail("C19.begin-block-takes-nothing-from-users", d, "step %d: account lost %s%s in a begin-block", i, got.Neg(), d)
			}
			if got.IsZero() {
				continue
			}
			nPaid++
			paidOut[d] = paidOut[d].Add(got)
			b := bound[k]
			if b == nil {
				b = new(big.Rat)
			}
			if ratOfInt(got).Cmp(b) > 0 {
				m.fail("C19.payout-within-pro-rata-share", d, "step %d: account %s received %s%s; its pro-rata share of the epoch allocations by farmed value is %s (tolerance 1e-12 included)", i, u.Addr, got, d, b.FloatString(24))
			}
		}
	}
	for _, d := range m.c19AllDenoms() {
		if paidOut[d].GT(allocSum[d]) {
			m.fail("C19.epoch-pays-at-most-its-allocation", "sum:"+d, "step %d: farmers received %s%s in this begin-block, the triggered gauges' allocations total %s", i, paidOut[d], d, allocSum[d])
		}
	}
	if nPaid > 0 {
		m.c19.nEpochs++
		if nPaid > 1 {
			m.c19.nMulti++
		}
	}
	for d, e := range pre.epochs {
		if now, ok := c.App.Rewardskeeper.GetEpochInfoByDuration(c.Ctx, d); ok && now.CurrentEpochStartTime.Sub(e.CurrentEpochStartTime) > d {
			m.c19.nSkip++
		}
	}
	m.c19Custody(i)
}

// c19Custody: the rewards account holds at least the undistributed remainder of all active gauges.
func (m *lMachine) c19Custody(i int) {
	c := m.c
	need := map[string]sdk.Int{}
	for _, g := range c.App.Rewardskeeper.GetAllGauges(c.Ctx) {
		d := g.DepositAmount.Denom
		if _, ok := need[d]; !ok {
			need[d] = sdk.ZeroInt()
		}
		switch {
		case g.ForSwapFee:
			need[d] = need[d].Add(g.DepositAmount.Amount)
		case g.IsActive:
			need[d] = need[d].Add(g.DepositAmount.Amount.Sub(g.DistributedAmount.Amount))
		}
	}
	var ds []string
	for d := range need {
		ds = append(ds, d)
	}
	sort.Strings(ds)
	for _, d := range ds {
		if have := c.Bal(rewardsAddr(), d); have.LT(need[d]) {
			m.fail("C19.custody-covers-undistributed-remainders", d, "step %d: rewards account holds %s%s, active gauges still owe %s", i, have, d, need[d])
		}
	}
}

func (m *lMachine) c19Finish() {
	s := m.c19
	if s.nEpochs > 0 {
		m.r.NonTrivialSig(rec.Sig(m.cs), func() interface{} {
			return map[string]interface{}{"epoch_distributions_with_payout": s.nEpochs, "with_several_farmers": s.nMulti, "master_child_evaluations": s.nMaster, "skipped_epoch_gaps": s.nSkip, "gauges": len(s.gauges), "ops": len(m.cs.Ops)}
		})
	}
	m.r.ClassN("epoch-distributions-with-payout", s.nEpochs)
	m.r.ClassN("epoch-distributions-with-several-farmers", s.nMulti)
	m.r.ClassN("master-child-evaluations", s.nMaster)
	m.r.ClassN("epoch-gaps-skipped", s.nSkip)
}

func TestC19_gauges(t *testing.T) {
	r := rec.New("C19", "gauges")
	t.Cleanup(r.Flush)
	rapid.Check(t, func(rt *rapid.T) {
		r.Guard(func() {
			r.Eval()
			lc := &lCase{Cfg: genLCfg(rt)}
			for i := range lc.Cfg.Apps {
				// fees collected in a pair denomination become distributable without the 150-block conversion
				lc.Cfg.Apps[i].DistrDenom = rapid.SampledFrom([]string{"", "uaaa", "ubbb", "uccc"}).Draw(rt, fmt.Sprintf("distrdenom%d", i))
			}
			m := newLMachine(rt, r, "C19", lc)
			n := rapid.IntRange(20, 70).Draw(rt, "nops")
			for i := 0; i < n; i++ {
				op := m.genOp(rt, i)
				lc.Ops = append(lc.Ops, op)
				m.apply(i, op)
			}
			m.finish()
		})
	})
}

func init() {
	replayers["C19.split"] = func(t *testing.T, r *rec.Rec, raw json.RawMessage) {
		var c c19Split
		_ = json.Unmarshal(raw, &c)
		c19CheckSplit(t, r, c)
	}
	replayers["C19.splitexhaustive"] = replayers["C19.split"]
	replayers["C19.gauges"] = func(t *testing.T, r *rec.Rec, raw json.RawMessage) {
		var cs lCase
		if err := json.Unmarshal(raw, &cs); err != nil {
			t.Fatal(err)
		}
		r.Eval()
		m := newLMachine(t, r, "C19", &cs)
		for i, op := range cs.Ops {
			m.apply(i, op)
		}
		m.finish()
	}
}
