package checks

// C15, environment faults: on a branch of a reachable state a generated set of
// faults is installed — oracle feeds switched off, zeroed or blown up, module /
// pool / escrow accounts drained, governance parameters missing, the vault
// counter out of step with the stored vault list — and the end-block and
// begin-block hooks must still return normally (two consecutive blocks).

import (
	"encoding/json"
	"fmt"
	"testing"
	"time"

	abci "github.com/cometbft/cometbft/abci/types"
	tmproto "github.com/cometbft/cometbft/proto/tendermint/types"
	sdk "github.com/cosmos/cosmos-sdk/types"
	authtypes "github.com/cosmos/cosmos-sdk/x/auth/types"
	"pgregory.net/rapid"

	assettypes "github.com/comdex-official/comdex/x/asset/types"
	auctypes "github.com/comdex-official/comdex/x/auctionsV2/types"
	"github.com/comdex-official/comdex/x/bandoracle"
	bandtypes "github.com/comdex-official/comdex/x/bandoracle/types"
	collectortypes "github.com/comdex-official/comdex/x/collector/types"
	liqv2types "github.com/comdex-official/comdex/x/liquidationsV2/types"
	lockertypes "github.com/comdex-official/comdex/x/locker/types"
	"github.com/comdex-official/comdex/x/market"
	vaulttypes "github.com/comdex-official/comdex/x/vault/types"

	"verif/rec"
	"verif/world"
)

type c15Feed struct {
	Asset int    `json:"asset"`
	Mode  string `json:"mode"` // inactive | zero | huge | tiny
}

type c15Drain struct {
	Account string `json:"account"` // module name, or "pool:<i>" / "escrow:<i>" / "feecollector:<i>" in the liquidity world
	Asset   int    `json:"asset"`   // index into the world's assets / denoms
}

type c15Env struct {
	Feeds      []c15Feed  `json:"feeds,omitempty"`
	Drains     []c15Drain `json:"drains,omitempty"`
	Gifts      []c15Drain `json:"gifts,omitempty"` // liquidity world: plain transfers INTO a pair's swap-fee collector ("feecollector <i>")
	DropParams []string   `json:"drop_params,omitempty"`
	VaultCount int64      `json:"vault_counter_delta,omitempty"`
	Dt         []int64    `json:"dt"`
	Align150   bool       `json:"align_150,omitempty"`
}

type c15EnvCase struct {
	World string `json:"world"`
	V     *vCase `json:"v,omitempty"`
	L     *lCase `json:"l,omitempty"`
	Env   c15Env `json:"env"`
}

func c15DrainAddr(c *world.Chain, from sdk.AccAddress, denom string) {
	bal := c.App.BankKeeper.GetBalance(c.Ctx, from, denom)
	if bal.IsPositive() {
		// a plain transfer out of the account (slashing, a bug elsewhere, an operator mistake): the hooks must cope
		if err := c.App.BankKeeper.SendCoins(c.Ctx, from, c.Accs[0].Addr, sdk.NewCoins(bal)); err != nil {
			panic(err)
		}
	}
}

func (m *vMachine) c15InstallEnv(env c15Env) {
	c, cfg := m.c, &m.cs.Cfg
	for _, f := range env.Feeds {
		id := cfg.Assets[f.Asset].ID
		tw, _ := c.App.MarketKeeper.GetTwa(c.Ctx, id)
		switch f.Mode {
		case "inactive":
			c.SetPrice(id, tw.Twa, false)
		case "zero":
			c.SetPrice(id, 0, true)
		case "huge":
			c.SetPrice(id, 1<<62, true)
		case "tiny":
			c.SetPrice(id, 1, true)
		}
	}
	for _, d := range env.Drains {
		c15DrainAddr(c, authtypes.NewModuleAddress(d.Account), cfg.Assets[d.Asset].Denom)
	}
	for _, p := range env.DropParams {
		var kind string
		var idx int
		fmt.Sscanf(p, "%s %d", &kind, &idx)
		switch kind {
		case "auction-params":
			c.Ctx.KVStore(c.App.GetKey(auctypes.StoreKey)).Delete(auctypes.AuctionParamsKey)
		case "liquidation-whitelisting":
			c.Ctx.KVStore(c.App.GetKey(liqv2types.StoreKey)).Delete(liqv2types.LiquidationWhiteListingKey(m.apps[idx%len(m.apps)]))
		case "collector-lookup":
			if len(cfg.Lockers) > 0 {
				lc := cfg.Lockers[idx%len(cfg.Lockers)]
				c.Ctx.KVStore(c.App.GetKey(collectortypes.StoreKey)).Delete(collectortypes.CollectorLookupTableMappingKey(m.apps[lc.App], cfg.Assets[lc.Asset].ID))
			}
		}
	}
	if env.VaultCount != 0 {
		n := int64(c.App.VaultKeeper.GetLengthOfVault(c.Ctx)) + env.VaultCount
		if n < 0 {
			n = 0
		}
		c.App.VaultKeeper.SetLengthOfVault(c.Ctx, uint64(n))
	}
}

// c15AfterHooks: a unit of work that failed inside a hook must have left nothing behind. A vault liquidation moves
// the collateral out of vault custody, stores the locked vault and opens its auction; whatever the environment made
// fail, afterwards vault custody must still equal the open vaults' collateral and every locked vault of this block must
// have its auction. (Not asserted when the fault itself drained an account.)
func (m *vMachine) c15AfterHooks(r *rec.Rec, cs *c15EnvCase) func(int) {
	known := map[uint64]bool{}
	for _, lv := range m.c.App.NewliqKeeper.GetLockedVaults(m.c.Ctx) {
		known[lv.LockedVaultId] = true
	}
	return func(block int) {
		if len(cs.Env.Drains) > 0 {
			return
		}
		c, cfg := m.c, &m.cs.Cfg
		vaults := c.App.VaultKeeper.GetVaults(c.Ctx)
		svs := c.App.VaultKeeper.GetStableMintVaults(c.Ctx)
		for ai := 0; ai < cfg.NColl; ai++ {
			a := cfg.Assets[ai]
			sum := sdk.ZeroInt()
			for _, v := range vaults {
				if p := m.productByID(v.ExtendedPairVaultID); p != nil && m.inAsset(p).Denom == a.Denom {
					sum = sum.Add(v.AmountIn)
				}
			}
			for _, sv := range svs {
				if p := m.productByID(sv.ExtendedPairVaultID); p != nil && m.inAsset(p).Denom == a.Denom {
					sum = sum.Add(sv.AmountIn)
				}
			}
			held := c.Bal(vaultAddr(), a.Denom)
			if u, ok := m.unsol[a.Denom]; ok {
				held = held.Sub(u)
			}
			if !held.Equal(sum) {
				r.Fail(m.t, "C15.failed-unit-leaves-partial-writes", "vault-custody", cs, "block %d after the fault: vault custody holds %s%s, open vaults record %s (environment %+v)", block, held, a.Denom, sum, cs.Env)
			}
		}
		live := map[uint64]int{}
		for _, a := range c.App.NewaucKeeper.GetAuctions(c.Ctx) {
			live[a.LockedVaultId]++
		}
		for _, lv := range c.App.NewliqKeeper.GetLockedVaults(c.Ctx) {
			if known[lv.LockedVaultId] {
				continue // locked before the fault; its auction may have been settled since
			}
			known[lv.LockedVaultId] = true
			if live[lv.LockedVaultId] != 1 {
				r.Fail(m.t, "C15.failed-unit-leaves-partial-writes", "locked-vault-without-auction", cs, "block %d after the fault: locked vault %d (%s, original vault %d) has %d live auctions (environment %+v)", block, lv.LockedVaultId, lv.InitiatorType, lv.OriginalVaultId, live[lv.LockedVaultId], cs.Env)
			}
		}
	}
}

func (m *lMachine) c15InstallEnv(env c15Env) {
	c := m.c
	for _, d := range env.Drains {
		var kind string
		var idx int
		fmt.Sscanf(d.Account, "%s %d", &kind, &idx)
		for _, a := range m.cs.Cfg.Apps {
			switch kind {
			case "pool":
				pools := m.k.GetAllPools(c.Ctx, a.ID)
				if len(pools) > 0 {
					p := pools[idx%len(pools)]
					pair, _ := m.k.GetPair(c.Ctx, a.ID, p.PairId)
					denom := pair.BaseCoinDenom
					if d.Asset%2 == 1 {
						denom = pair.QuoteCoinDenom
					}
					c15DrainAddr(c, p.GetReserveAddress(), denom)
				}
			case "escrow", "feecollector":
				pairs := m.k.GetAllPairs(c.Ctx, a.ID)
				if len(pairs) > 0 {
					p := pairs[idx%len(pairs)]
					denom := p.BaseCoinDenom
					if d.Asset%2 == 1 {
						denom = p.QuoteCoinDenom
					}
					if kind == "escrow" {
						c15DrainAddr(c, p.GetEscrowAddress(), denom)
					} else {
						c15DrainAddr(c, p.GetSwapFeeCollectorAddress(), denom)
					}
				}
			}
		}
	}
}

// c15InstallGifts: anybody can send coins to a pair's swap-fee collector address; every 150th block the
// liquidity hook tries to convert whatever that account holds into the fee-distribution token.
func (m *lMachine) c15InstallGifts(env c15Env) {
	c := m.c
	for _, g := range env.Gifts {
		var kind string
		var idx int
		fmt.Sscanf(g.Account, "%s %d", &kind, &idx)
		for _, a := range m.cs.Cfg.Apps {
			pairs := m.k.GetAllPairs(c.Ctx, a.ID)
			if len(pairs) == 0 {
				continue
			}
			p := pairs[idx%len(pairs)]
			denom := p.BaseCoinDenom
			if g.Asset%2 == 1 {
				denom = p.QuoteCoinDenom
			}
			from := c.Accs[0].Addr
			if bal := c.App.BankKeeper.GetBalance(c.Ctx, from, denom); bal.Amount.GTE(sdk.NewInt(1000000)) {
				if err := c.App.BankKeeper.SendCoins(c.Ctx, from, p.GetSwapFeeCollectorAddress(), sdk.NewCoins(sdk.NewInt64Coin(denom, 1000000))); err != nil {
					panic(err)
				}
			}
		}
	}
}

func c15EnvRun(t rec.TB, r *rec.Rec, cs *c15EnvCase, c *world.Chain, install func(), after func(block int)) {
	// the hooks of several consecutive blocks on one branch: EndBlocker(H), BeginBlocker(H+1), EndBlocker(H+1) ...
	save := c.Ctx
	saveH, saveT := c.Height, c.Time
	defer func() { c.Ctx, c.Height, c.Time = save, saveH, saveT }()
	cctx, _ := c.Ctx.CacheContext()
	c.Ctx = cctx
	install()
	for i, dt := range cs.Env.Dt {
		height := int64(0)
		if cs.Env.Align150 && i == 0 {
			height = (c.Height/150 + 1) * 150
		}
		var escaped interface{}
		func() {
			defer func() { escaped = recover() }()
			c.App.EndBlocker(c.Ctx, abciEnd(c.Height))
			h := c.Ctx.BlockHeader()
			h.Height = c.Height + 1
			if height != 0 {
				h.Height = height
			}
			h.Time = c.Time.Add(time.Duration(dt) * time.Second)
			c.Height, c.Time = h.Height, h.Time
			c.Ctx = c.Ctx.WithBlockHeader(h).WithBlockHeight(h.Height)
			c.App.BeginBlocker(c.Ctx, abciBegin(h))
		}()
		if escaped != nil {
			what := "feeds"
			switch {
			case cs.Env.VaultCount != 0:
				what = "vault-counter"
			case len(cs.Env.DropParams) > 0:
				what = "missing-parameters"
			case len(cs.Env.Drains) > 0:
				what = "drained-accounts"
			case len(cs.Env.Gifts) > 0:
				what = "coins-sent-to-fee-collector"
			}
			r.Fail(t, "C15.block-hooks-panic-under-environment-fault", what, cs, "block %d after the fault: panic escaped the hooks: %.300v (environment %+v)", i+1, escaped, cs.Env)
			return
		}
		if after != nil {
			after(i + 1)
		}
	}
	r.NonTrivial(cs)
}

func c15GenEnv(rt *rapid.T, nassets int, vault bool, nlockers int) c15Env {
	env := c15Env{Align150: rapid.IntRange(0, 3).Draw(rt, "align") == 0}
	nb := rapid.IntRange(1, 3).Draw(rt, "nblocks")
	for i := 0; i < nb; i++ {
		env.Dt = append(env.Dt, rapid.SampledFrom([]int64{5, 6, 600, 86400, 30 * 86400}).Draw(rt, "dt"))
	}
	pick := rapid.IntRange(0, 9).Draw(rt, "faultclass")
	if vault {
		if pick <= 4 {
			for ai := 0; ai < nassets; ai++ {
				if mode := rapid.SampledFrom([]string{"", "", "inactive", "zero", "huge", "tiny"}).Draw(rt, fmt.Sprintf("feed%d", ai)); mode != "" {
					env.Feeds = append(env.Feeds, c15Feed{ai, mode})
				}
			}
		}
		if pick >= 3 && pick <= 6 {
			n := rapid.IntRange(1, 3).Draw(rt, "ndrain")
			for i := 0; i < n; i++ {
				env.Drains = append(env.Drains, c15Drain{rapid.SampledFrom([]string{vaulttypes.ModuleName, collectortypes.ModuleName, auctypes.ModuleName, liqv2types.ModuleName, lockertypes.ModuleName}).Draw(rt, "module"),
					rapid.IntRange(0, nassets-1).Draw(rt, "asset")})
			}
		}
		if pick == 7 || pick == 8 {
			n := rapid.IntRange(1, 2).Draw(rt, "ndrop")
			for i := 0; i < n; i++ {
				env.DropParams = append(env.DropParams, fmt.Sprintf("%s %d", rapid.SampledFrom([]string{"auction-params", "liquidation-whitelisting", "collector-lookup"}).Draw(rt, "param"), rapid.IntRange(0, 7).Draw(rt, "idx")))
			}
		}
		if pick == 9 {
			env.VaultCount = rapid.SampledFrom([]int64{-3, -1, 1, 2, 7}).Draw(rt, "countdelta")
		}
	} else {
		if pick <= 4 {
			// coins sent to swap-fee collectors, and the hooks run at a height where the conversion is attempted
			env.Align150 = true
			n := rapid.IntRange(1, 3).Draw(rt, "ngift")
			for i := 0; i < n; i++ {
				env.Gifts = append(env.Gifts, c15Drain{fmt.Sprintf("feecollector %d", rapid.IntRange(0, 5).Draw(rt, "idx")), rapid.IntRange(0, 1).Draw(rt, "side")})
			}
		}
		if pick >= 3 {
			n := rapid.IntRange(1, 3).Draw(rt, "ndrain")
			for i := 0; i < n; i++ {
				env.Drains = append(env.Drains, c15Drain{fmt.Sprintf("%s %d", rapid.SampledFrom([]string{"pool", "escrow", "feecollector"}).Draw(rt, "kind"), rapid.IntRange(0, 5).Draw(rt, "idx")), rapid.IntRange(0, 1).Draw(rt, "side")})
			}
		}
	}
	return env
}

func TestC15_env(t *testing.T) {
	r := rec.New("C15", "env")
	t.Cleanup(r.Flush)
	rapid.Check(t, func(rt *rapid.T) {
		r.Guard(func() {
			r.Eval()
			cs := &c15EnvCase{World: rapid.SampledFrom([]string{"vault", "vault", "liquidity"}).Draw(rt, "world")}
			if cs.World == "vault" {
				vc := &vCase{Cfg: genVCfg(rt, "C13", true)}
				cs.V = vc
				m := newVMachine(rt, r, "C15", vc)
				n := rapid.IntRange(10, 45).Draw(rt, "nops")
				for i := 0; i < n; i++ {
					op := m.genOp(rt, i)
					vc.Ops = append(vc.Ops, op)
					m.apply(i, op)
				}
				cs.Env = c15GenEnv(rt, len(vc.Cfg.Assets), true, len(vc.Cfg.Lockers))
				c15EnvRun(rt, r, cs, m.c, func() { m.c15InstallEnv(cs.Env) }, m.c15AfterHooks(r, cs))
			} else {
				lc := &lCase{Cfg: genLCfg(rt)}
				for i := range lc.Cfg.Apps {
					// a fee-distribution token among the traded ones: the conversion of collected swap fees (every 150th block) has work to do
					lc.Cfg.Apps[i].DistrDenom = rapid.SampledFrom([]string{"", "uaaa", "ubbb", "uccc"}).Draw(rt, fmt.Sprintf("distrdenom%d", i))
				}
				cs.L = lc
				m := newLMachine(rt, r, "C15", lc)
				n := rapid.IntRange(10, 45).Draw(rt, "nops")
				for i := 0; i < n; i++ {
					op := m.genOp(rt, i)
					lc.Ops = append(lc.Ops, op)
					m.apply(i, op)
				}
				cs.Env = c15GenEnv(rt, 2, false, 0)
				c15EnvRun(rt, r, cs, m.c, func() { m.c15InstallEnv(cs.Env); m.c15InstallGifts(cs.Env) }, nil)
			}
		})
	})
}

func init() {
	replayers["C15.env"] = func(t *testing.T, r *rec.Rec, raw json.RawMessage) {
		var cs c15EnvCase
		if err := json.Unmarshal(raw, &cs); err != nil {
			t.Fatal(err)
		}
		r.Eval()
		if cs.World == "vault" {
			m := newVMachine(t, r, "C15", cs.V)
			for i, op := range cs.V.Ops {
				m.apply(i, op)
			}
			c15EnvRun(t, r, &cs, m.c, func() { m.c15InstallEnv(cs.Env) }, m.c15AfterHooks(r, &cs))
		} else {
			m := newLMachine(t, r, "C15", cs.L)
			for i, op := range cs.L.Ops {
				m.apply(i, op)
			}
			c15EnvRun(t, r, &cs, m.c, func() { m.c15InstallEnv(cs.Env); m.c15InstallGifts(cs.Env) }, nil)
		}
	}
}

func abciEnd(h int64) abci.RequestEndBlock { return abci.RequestEndBlock{Height: h} }

func abciBegin(h tmproto.Header) abci.RequestBeginBlock { return abci.RequestBeginBlock{Header: h} }

// TestC15_oracle drives the band-oracle -> market begin-block pipeline with generated rate sequences
// (zero-rate outages, late and missing results, every window size): the unwrapped market and
// band-oracle hooks must return normally. The generator and runner are those of C17's pipeline sub;
// here only the absence of a panic is the point.
func TestC15_oracle(t *testing.T) {
	r := rec.New("C15", "oracle")
	t.Cleanup(r.Flush)
	rapid.Check(t, func(rt *rapid.T) {
		c := c17GenPipeline(rt)
		r.Guard(func() { c17RunPipeline(rt, r, c) })
	})
}

func init() {
	replayers["C15.oracle"] = func(t *testing.T, r *rec.Rec, raw json.RawMessage) {
		var c c17PCase
		_ = json.Unmarshal(raw, &c)
		c17RunPipeline(t, r, &c)
	}
}

// ---- oraclecount: the number of oracle-priced assets and the number of rates in the last band answer disagree ----

type c15CountCase struct {
	N      uint64     `json:"twa_batch"`
	Extra  []bool     `json:"extra_assets"` // assets registered after the two of the fixture; true = oracle price required
	Rounds [][]uint64 `json:"rounds"`       // rates of the successive band answers (any length, may be empty)
}

func c15CountRun(t rec.TB, r *rec.Rec, c *c15CountCase) {
	c17Setup()
	r.Eval()
	app := c17Chain.App
	ctx, _ := c17Chain.Ctx.CacheContext()
	ctx = ctx.WithBlockHeight(101)
	msg := bandtypes.MsgFetchPriceData{Creator: "c", OracleScriptID: 7, SourceChannel: "channel-0", AskCount: 1, MinCount: 1,
		FeeLimit: sdk.NewCoins(sdk.NewInt64Coin("uband", 1)), PrepareGas: 1, ExecuteGas: 1, TwaBatchSize: c.N, AcceptedHeightDiff: 40}
	if err := app.BandoracleKeeper.AddFetchPriceRecords(ctx, msg); err != nil {
		panic(err)
	}
	oracleAssets := 2
	for i, need := range c.Extra {
		n := "XTR" + string(rune('A'+i))
		if err := app.AssetKeeper.AddAssetRecords(ctx, assettypes.Asset{Name: n, Denom: "u" + n, Decimals: sdk.NewInt(1000000), IsOnChain: true, IsOraclePriceRequired: need}); err != nil {
			panic(err)
		}
		if need {
			oracleAssets++
		}
	}
	h := int64(100)
	mismatch := false
	for i, rates := range c.Rounds {
		h += 20
		ctx = ctx.WithBlockHeight(h)
		app.BandoracleKeeper.SetFetchPriceResult(ctx, bandtypes.OracleRequestID(i+1), bandtypes.FetchPriceResult{Rates: rates})
		app.BandoracleKeeper.SetLastFetchPriceID(ctx, bandtypes.OracleRequestID(i+1))
		if len(rates) > 0 && len(rates) != oracleAssets {
			mismatch = true
		}
		func() {
			defer func() {
				if x := recover(); x != nil {
					r.Fail(t, "C15.no-panic", fmt.Sprintf("oracle-assets=%d,rates=%d", oracleAssets, len(rates)), c, "round %d at height %d: begin blockers panicked: %v", i, h, x)
				}
			}()
			bandoracle.BeginBlocker(ctx, abci.RequestBeginBlock{}, app.BandoracleKeeper)
			market.BeginBlocker(ctx, abci.RequestBeginBlock{}, app.MarketKeeper, app.BandoracleKeeper, app.AssetKeeper)
		}()
	}
	if mismatch {
		r.NonTrivial(c)
	}
}

func TestC15_oraclecount(t *testing.T) {
	r := rec.New("C15", "oraclecount")
	t.Cleanup(r.Flush)
	rapid.Check(t, func(rt *rapid.T) {
		c := &c15CountCase{N: uint64(rapid.IntRange(1, 4).Draw(rt, "n"))}
		for i, n := 0, rapid.IntRange(0, 3).Draw(rt, "nextra"); i < n; i++ {
			c.Extra = append(c.Extra, rapid.IntRange(0, 3).Draw(rt, "oracle") > 0)
		}
		for i, n := 0, rapid.IntRange(2, 8).Draw(rt, "rounds"); i < n; i++ {
			var rates []uint64
			for j, k := 0, rapid.IntRange(0, 6).Draw(rt, "nrates"); j < k; j++ {
				rates = append(rates, rapid.SampledFrom(c17Rates).Draw(rt, "rate"))
			}
			c.Rounds = append(c.Rounds, rates)
		}
		r.Guard(func() { c15CountRun(rt, r, c) })
	})
}

func init() {
	replayers["C15.oraclecount"] = func(t *testing.T, r *rec.Rec, raw json.RawMessage) {
		var c c15CountCase
		_ = json.Unmarshal(raw, &c)
		c15CountRun(t, r, &c)
	}
}
