package checks

// C17 — oracle price averaging: reference model (deque of the last N accepted
// positive samples, big-integer mean) against market.UpdatePriceList and against
// the real bandoracle+market BeginBlocker pair.

import (
	"encoding/json"
	"fmt"
	"math"
	"math/big"
	"os"
	"sync"
	"testing"

	abci "github.com/cometbft/cometbft/abci/types"
	sdk "github.com/cosmos/cosmos-sdk/types"
	"pgregory.net/rapid"

	assettypes "github.com/comdex-official/comdex/x/asset/types"
	"github.com/comdex-official/comdex/x/bandoracle"
	bandtypes "github.com/comdex-official/comdex/x/bandoracle/types"
	"github.com/comdex-official/comdex/x/market"

	"verif/rec"
	"verif/world"
)

// ---- reference model ----

type twaModel struct {
	exists bool
	win    []uint64 // most recent accepted positive samples, oldest first, len <= N
	active bool
	zeroAt int64 // height of the zero sample that deactivated the price, -1 none
}

func newTwaModel() *twaModel { return &twaModel{zeroAt: -1} }

func (m *twaModel) sample(rate uint64, h int64, n int, gap int64) {
	if rate == 0 {
		if m.exists && m.zeroAt < 0 {
			m.zeroAt = h
			m.active = false
		}
		return
	}
	if m.exists && m.zeroAt > 0 {
		if h-m.zeroAt >= gap {
			m.win = m.win[:0]
			m.active = false
		}
		m.zeroAt = -1
	}
	m.exists = true
	m.win = append(m.win, rate)
	if len(m.win) > n {
		m.win = m.win[len(m.win)-n:]
	}
	if len(m.win) == n {
		m.active = true
	}
}

func (m *twaModel) mean() uint64 {
	s := new(big.Int)
	for _, v := range m.win {
		s.Add(s, new(big.Int).SetUint64(v))
	}
	s.Quo(s, big.NewInt(int64(len(m.win))))
	return s.Uint64()
}

// ---- shared chain (state isolated per case through a cache context) ----

var (
	c17Once  sync.Once
	c17Chain *world.Chain
	c17Asset [2]uint64
)

func c17Setup() {
	c17Once.Do(func() {
		c := world.NewChain(world.Options{Seed: 17})
		for i, n := range []string{"CMDX", "ATOM"} {
			if err := c.App.AssetKeeper.AddAssetRecords(c.Ctx, assettypes.Asset{Name: n, Denom: "u" + n, Decimals: sdk.NewInt(1000000), IsOnChain: true, IsOraclePriceRequired: true}); err != nil {
				panic(err)
			}
			for _, a := range c.App.AssetKeeper.GetAssets(c.Ctx) {
				if a.Name == n {
					c17Asset[i] = a.Id
				}
			}
		}
		c17Chain = c
	})
}

var c17Rates = []uint64{0, 0, 1, 2, 3, 1000000, 1000001, 999999, 1 << 62, 1 << 63, math.MaxUint64, math.MaxUint64 - 1}

type c17Step struct {
	Rate uint64 `json:"rate"`
	DH   int64  `json:"dh"`
}

type c17Case struct {
	N     uint64    `json:"n"`
	Gap   int64     `json:"gap"`
	Steps []c17Step `json:"steps"`
}

func c17Observe(t rec.TB, r *rec.Rec, ctx sdk.Context, c interface{}, asset uint64, m *twaModel, n int, step int, when string) {
	mk := c17Chain.App.MarketKeeper
	fail := func(assertion, f string, a ...interface{}) {
		r.Fail(t, assertion, fmt.Sprintf("%s,N=%d", when, n), c, "step %d: "+f, append([]interface{}{step}, a...)...)
	}
	twa, found := mk.GetTwa(ctx, asset)
	if found != m.exists {
		fail("C17.record-exists", "record found=%v model=%v", found, m.exists)
	}
	if !found {
		return
	}
	if twa.IsPriceActive != m.active {
		fail("C17.activation", "active=%v but reference model says %v (window %v, stored %v)", twa.IsPriceActive, m.active, m.win, twa.PriceValue)
	}
	if len(twa.PriceValue) > n {
		fail("C17.window-size", "stored window has %d entries for N=%d", len(twa.PriceValue), n)
	}
	if twa.IsPriceActive && twa.CurrentIndex >= uint64(n) {
		fail("C17.index-in-window", "current index %d outside window of %d", twa.CurrentIndex, n)
	}
	var lerr, cerr error
	var cval sdk.Dec
	func() {
		defer func() {
			if x := recover(); x != nil {
				fail(r.Property+".no-panic", "consumer panicked: %v", x)
			}
		}()
		_, lerr = mk.GetLatestPrice(ctx, asset)
		cval, cerr = mk.CalcAssetPrice(ctx, asset, sdk.NewInt(1000000))
	}()
	if m.active {
		want := m.mean()
		if twa.Twa != want {
			fail("C17.mean", "published %d, integer mean of last %d samples %v is %d", twa.Twa, n, m.win, want)
		}
		if cerr != nil || lerr != nil {
			fail("C17.consumer-error-iff-inactive", "price active but consumers err: %v / %v", cerr, lerr)
		}
		if !cval.Equal(sdk.NewDecFromInt(sdk.NewIntFromUint64(want))) {
			fail("C17.consumer-value", "value of one whole coin %s, want %d", cval, want)
		}
	} else if cerr == nil || lerr == nil {
		fail("C17.consumer-error-iff-inactive", "price inactive but consumer got a value (%v / %v)", cerr, lerr)
	}
}

func c17RunDirect(t rec.TB, r *rec.Rec, c *c17Case) {
	c17Setup()
	r.Eval()
	ctx, _ := c17Chain.Ctx.CacheContext()
	mk := c17Chain.App.MarketKeeper
	m := newTwaModel()
	h := int64(100)
	n := int(c.N)
	activated, wraps, zeroRecover, sinceWrap := false, 0, false, 0
	sawZero := false
	for i, s := range c.Steps {
		h += s.DH
		ctx = ctx.WithBlockHeight(h)
		func() {
			defer func() {
				if x := recover(); x != nil {
					r.Fail(t, r.Property+".no-panic", fmt.Sprintf("direct,N=%d", n), c, "step %d (rate %d at height %d): UpdatePriceList panicked: %v", i, s.Rate, h, x)
				}
			}()
			mk.UpdatePriceList(ctx, c17Asset[0], 7, s.Rate, c.N, c.Gap)
		}()
		m.sample(s.Rate, h, n, c.Gap)
		c17Observe(t, r, ctx, c, c17Asset[0], m, n, i, "direct")
		if m.active {
			activated = true
			if s.Rate > 0 {
				sinceWrap++
				if sinceWrap > n {
					wraps++
					sinceWrap = 0
				}
			}
			if sawZero {
				zeroRecover = true
			}
		}
		if s.Rate == 0 && m.exists {
			sawZero = true
		}
	}
	if activated {
		r.Class("activated")
	}
	if activated && wraps >= 1 && zeroRecover {
		r.NonTrivial(c)
	}
}

func c17GenCase(rt *rapid.T) *c17Case {
	c := &c17Case{}
	c.N = uint64(rapid.SampledFrom([]int{1, 1, 2, 2, 3, 3, 4, 5, 6, 8, 30}).Draw(rt, "n"))
	c.Gap = int64(rapid.SampledFrom([]int{1, 2, 3, 5, 20, 50}).Draw(rt, "gap"))
	l := rapid.IntRange(0, int(6*c.N)+4).Draw(rt, "len")
	if l > 70 {
		l = 70
	}
	big := rapid.Bool().Draw(rt, "bigrates")
	for i := 0; i < l; i++ {
		var rate uint64
		switch rapid.IntRange(0, 9).Draw(rt, fmt.Sprintf("rk%d", i)) {
		case 0:
			rate = 0
		case 1, 2:
			if big {
				rate = rapid.SampledFrom(c17Rates).Draw(rt, fmt.Sprintf("rc%d", i))
			} else {
				rate = uint64(rapid.IntRange(1, 5).Draw(rt, fmt.Sprintf("rs%d", i)))
			}
		default:
			rate = uint64(rapid.Int64Range(1, 5000000).Draw(rt, fmt.Sprintf("rr%d", i)))
		}
		dh := int64(rapid.SampledFrom([]int{1, 1, 1, 2, 3, 5, 20, 49, 50, 51}).Draw(rt, fmt.Sprintf("dh%d", i)))
		c.Steps = append(c.Steps, c17Step{rate, dh})
	}
	return c
}

func TestC17_direct(t *testing.T) {
	r := rec.New("C17", "direct")
	t.Cleanup(r.Flush)
	rapid.Check(t, func(rt *rapid.T) {
		c := c17GenCase(rt)
		r.Guard(func() { c17RunDirect(rt, r, c) })
	})
}

// Exhaustive: every sample sequence of bounded length over a small alphabet.
func TestC17_exhaustive(t *testing.T) {
	r := rec.New("C17", "exhaustive")
	t.Cleanup(r.Flush)
	maxLen := 6
	if os.Getenv("VERIF_TIER") == "thorough" {
		maxLen = 8
	}
	alphabet := []uint64{0, 1, 3, math.MaxUint64}
	r.Note("max_len", maxLen)
	r.Note("alphabet", []string{"0", "1", "3", "2^64-1"})
	for _, n := range []uint64{1, 2, 3} {
		for l := 0; l <= maxLen; l++ {
			total := 1
			for i := 0; i < l; i++ {
				total *= len(alphabet)
			}
			for code := 0; code < total; code++ {
				c := &c17Case{N: n, Gap: 2}
				x := code
				for i := 0; i < l; i++ {
					c.Steps = append(c.Steps, c17Step{alphabet[x%len(alphabet)], 1})
					x /= len(alphabet)
				}
				r.Guard(func() { c17RunDirect(t, r, c) })
			}
		}
	}
	r.SetExhaustive(true)
}

// ---- pipeline driver: bandoracle.BeginBlocker + market.BeginBlocker ----

type c17PStep struct {
	Arrive bool      `json:"arrive"` // a new oracle result arrived before this check
	Rates  [2]uint64 `json:"rates"`
}

type c17PCase struct {
	N     uint64     `json:"n"`
	Gap   int64      `json:"gap"`
	Steps []c17PStep `json:"steps"` // one per height that is a multiple of 20
}

func c17RunPipeline(t rec.TB, r *rec.Rec, c *c17PCase) {
	c17Setup()
	r.Eval()
	app := c17Chain.App
	ctx, _ := c17Chain.Ctx.CacheContext()
	ctx = ctx.WithBlockHeight(101)
	msg := bandtypes.MsgFetchPriceData{Creator: "c", OracleScriptID: 7, SourceChannel: "channel-0", AskCount: 1, MinCount: 1,
		FeeLimit: sdk.NewCoins(sdk.NewInt64Coin("uband", 1)), PrepareGas: 1, ExecuteGas: 1, TwaBatchSize: c.N, AcceptedHeightDiff: c.Gap}
	if err := app.BandoracleKeeper.AddFetchPriceRecords(ctx, msg); err != nil {
		panic(err)
	}
	n := int(c.N)
	models := [2]*twaModel{newTwaModel(), newTwaModel()}
	checkFlag, tempID, lastID := false, int64(0), int64(0)
	outageStart, discard := int64(-1), false
	h := int64(100)
	outages, activated, recoveredAfterOutage, clearedByDiscard := 0, false, false, false
	for i, s := range c.Steps {
		h += 20
		ctx = ctx.WithBlockHeight(h)
		if s.Arrive {
			lastID++
			app.BandoracleKeeper.SetFetchPriceResult(ctx, bandtypes.OracleRequestID(lastID), bandtypes.FetchPriceResult{Rates: s.Rates[:]})
			app.BandoracleKeeper.SetLastFetchPriceID(ctx, bandtypes.OracleRequestID(lastID))
		}
		func() {
			defer func() {
				if x := recover(); x != nil {
					r.Fail(t, r.Property+".no-panic", fmt.Sprintf("pipeline,N=%d", n), c, "check %d at height %d: begin blockers panicked: %v", i, h, x)
				}
			}()
			bandoracle.BeginBlocker(ctx, abci.RequestBeginBlock{}, app.BandoracleKeeper)
			market.BeginBlocker(ctx, abci.RequestBeginBlock{}, app.MarketKeeper, app.BandoracleKeeper, app.AssetKeeper)
		}()
		// model of the validation / outage logic
		valid := false
		if !checkFlag {
			tempID, checkFlag = 0, true
		} else {
			valid = lastID != tempID
			if !valid && outageStart < 0 {
				outageStart = h
				outages++
			} else if valid && outageStart > 0 {
				if h-outageStart >= c.Gap {
					discard = true
				}
				outageStart = -1
			}
			tempID = lastID
		}
		if valid {
			if discard {
				for _, m := range models {
					if m.exists {
						m.win, m.active = m.win[:0], false
					}
				}
				discard = false
				clearedByDiscard = true
			}
			// rates of the latest stored result, one per oracle-priced asset in asset order
			var rates [2]uint64
			for j := len(c.Steps[:i+1]) - 1; j >= 0; j-- {
				if c.Steps[j].Arrive {
					rates = c.Steps[j].Rates
					break
				}
			}
			for k, m := range models {
				m.sample(rates[k], h, n, c.Gap)
			}
			if outages > 0 {
				recoveredAfterOutage = true
			}
		} else {
			for _, m := range models {
				if m.exists {
					m.active = false
				}
			}
		}
		for k, m := range models {
			c17Observe(t, r, ctx, c, c17Asset[k], m, n, i, "pipeline")
			if m.active {
				activated = true
			}
		}
	}
	if clearedByDiscard {
		r.Class("window-cleared-after-long-outage")
	}
	if activated && recoveredAfterOutage {
		r.NonTrivial(c)
	}
}

func c17GenPipeline(rt *rapid.T) *c17PCase {
	c := &c17PCase{}
	c.N = uint64(rapid.SampledFrom([]int{1, 2, 2, 3, 3, 4, 6}).Draw(rt, "n"))
	c.Gap = int64(rapid.SampledFrom([]int{1, 20, 21, 40, 41, 50, 60, 100}).Draw(rt, "gap"))
	l := rapid.IntRange(1, int(4*c.N)+8).Draw(rt, "len")
	for i := 0; i < l; i++ {
		s := c17PStep{Arrive: rapid.IntRange(0, 9).Draw(rt, fmt.Sprintf("arr%d", i)) < 7}
		for k := 0; k < 2; k++ {
			switch rapid.IntRange(0, 9).Draw(rt, fmt.Sprintf("rk%d_%d", i, k)) {
			case 0:
				s.Rates[k] = 0
			case 1:
				s.Rates[k] = rapid.SampledFrom(c17Rates).Draw(rt, fmt.Sprintf("rc%d_%d", i, k))
			default:
				s.Rates[k] = uint64(rapid.Int64Range(1, 5000000).Draw(rt, fmt.Sprintf("rr%d_%d", i, k)))
			}
		}
		c.Steps = append(c.Steps, s)
	}
	return c
}

func TestC17_pipeline(t *testing.T) {
	r := rec.New("C17", "pipeline")
	t.Cleanup(r.Flush)
	rapid.Check(t, func(rt *rapid.T) {
		c := c17GenPipeline(rt)
		r.Guard(func() { c17RunPipeline(rt, r, c) })
	})
}

func init() {
	replayers["C17.direct"] = func(t *testing.T, r *rec.Rec, raw json.RawMessage) {
		var c c17Case
		_ = json.Unmarshal(raw, &c)
		c17RunDirect(t, r, &c)
	}
	replayers["C17.exhaustive"] = replayers["C17.direct"]
	replayers["C17.pipeline"] = func(t *testing.T, r *rec.Rec, raw json.RawMessage) {
		var c c17PCase
		_ = json.Unmarshal(raw, &c)
		c17RunPipeline(t, r, &c)
	}
}
