package checks

// The liquidity world machine shared by C04 (custody), C07 (order settlement)
// and the keeper-level part of C05: generated apps / pairs / pools (basic and
// ranged), per-app parameters (batch size, swap fee, withdraw fee, tick
// precision), and multi-account histories of orders, cancellations, deposits,
// withdrawals and farming across batches. One fresh account per limit / market
// order makes every balance delta attributable to one order.

import (
	"encoding/json"
	"fmt"
	"math/big"
	"testing"
	"time"

	sdkmath "cosmossdk.io/math"
	sdk "github.com/cosmos/cosmos-sdk/types"
	authtypes "github.com/cosmos/cosmos-sdk/x/auth/types"
	"pgregory.net/rapid"

	"github.com/comdex-official/comdex/x/liquidity/amm"
	liqkeeper "github.com/comdex-official/comdex/x/liquidity/keeper"
	liqtypes "github.com/comdex-official/comdex/x/liquidity/types"

	"verif/rec"
	"verif/world"
)

const (
	lNumLP    = 3
	lNumMM    = 2
	lMaxTrade = 36
)

type lApp struct {
	Batch    uint64 `json:"batch_size"`
	SwapFee  string `json:"swap_fee_rate"`
	WdFee    string `json:"withdraw_fee_rate"`
	TickPrec uint64 `json:"tick_precision"`
	// denomination swap fees are distributed in; empty = the module default (the fee denomination ucmdx, into
	// which collected fees are converted every 150 blocks)
	DistrDenom string `json:"swap_fee_distr_denom,omitempty"`
	ID         uint64 `json:"-"`
}

type lPair struct {
	App   int    `json:"app"`
	Base  int    `json:"base"`
	Quote int    `json:"quote"`
	ID    uint64 `json:"-"`
}

type lPool struct {
	Pair   int    `json:"pair"`
	Ranged bool   `json:"ranged"`
	X, Y   string // quote, base amounts
	Min    string `json:"min,omitempty"`
	Max    string `json:"max,omitempty"`
	Ini    string `json:"ini,omitempty"`
	// Snap: the range bounds (and an initial price equal to one of them) are moved onto the app's price ticks when the
	// pool is created, as the module requires; cases recorded before this field existed keep their literal bounds
	Snap bool `json:"snap,omitempty"`
}

type lCfg struct {
	Seed   uint64   `json:"seed"`
	Apps   []lApp   `json:"apps"`
	Denoms []string `json:"denoms"`
	Pairs  []lPair  `json:"pairs"`
	Pools  []lPool  `json:"pools"`
}

type lOp struct {
	K     string `json:"k"`
	Pair  int    `json:"pair,omitempty"`
	Pool  int    `json:"pool,omitempty"` // index into the machine's pool list
	Actor int    `json:"actor,omitempty"`
	Buy   bool   `json:"buy,omitempty"`
	Tick  int    `json:"tick,omitempty"` // tick offset from the reference price
	A     string `json:"a,omitempty"`
	B     string `json:"b,omitempty"`
	Life  int64  `json:"life,omitempty"` // seconds
	Order int    `json:"order,omitempty"`
	Dt    int64  `json:"dt,omitempty"`
	Extra int64  `json:"extra,omitempty"`
	Off   int64  `json:"off_tick_permille,omitempty"` // limit orders: how far between its tick and the next the quoted price lies
	New   *lPool `json:"new,omitempty"`
}

type lCase struct {
	Cfg lCfg  `json:"cfg"`
	Ops []lOp `json:"ops"`
}

type lOrder struct {
	trader    int
	app       uint64
	pair      int
	id        uint64
	mm        bool
	buy       bool
	initOffer sdk.Int // trader balance of the offer denom before placement
	initDem   sdk.Int
	offerDen  string
	demDen    string
	last      liqtypes.Order
	done      bool
	partial   bool
}

type lPoolRef struct {
	app  uint64
	pair int
	id   uint64
}

type lMachine struct {
	t         rec.TB
	r         *rec.Rec
	prop      string
	c         *world.Chain
	cs        *lCase
	k         liqkeeper.Keeper
	pools     []lPoolRef
	orders    []*lOrder
	nextTr    int
	feeExp    map[string]sdk.Int // pair swap-fee collector: expected balance key "pairIdx/denom"
	mmInit    map[string]sdk.Int // maker balances at start key "maker/denom"
	supExp    map[string]sdk.Int // expected pool coin supply per pool coin denom
	converted bool
	// statistics
	ok        map[string]int
	matched   int
	partialNC int // orders with a partial fill and a non-completed ending
	mmReplace int
	appNePair bool
	drained   int
	farmCycle int
	execDep   int
	execWd    int
	c19       *c19State
	c06Moves  int
	c06Req    map[string][3]interface{}
	c06Neg    map[string]bool
}

func (m *lMachine) fail(assertion, ctx, f string, a ...interface{}) {
	m.r.Fail(m.t, assertion, ctx, m.cs, f, a...)
}

// ---- configuration ----

func genLCfg(rt *rapid.T) lCfg {
	cfg := lCfg{Seed: uint64(rapid.IntRange(1, 1000).Draw(rt, "seed")), Denoms: []string{"uaaa", "ubbb", "uccc"}}
	na := rapid.IntRange(2, 3).Draw(rt, "napps")
	for i := 0; i < na; i++ {
		cfg.Apps = append(cfg.Apps, lApp{
			Batch:    uint64(rapid.SampledFrom([]int{1, 1, 2, 3}).Draw(rt, fmt.Sprintf("batch%d", i))),
			SwapFee:  rapid.SampledFrom([]string{"0", "0.003", "0.0033333", "0.3"}).Draw(rt, fmt.Sprintf("swapfee%d", i)),
			WdFee:    rapid.SampledFrom([]string{"0", "0", "0.003", "0.1"}).Draw(rt, fmt.Sprintf("wdfee%d", i)),
			TickPrec: uint64(rapid.SampledFrom([]int{2, 3, 4}).Draw(rt, fmt.Sprintf("tickprec%d", i))),
		})
	}
	np := rapid.IntRange(1, 4).Draw(rt, "npairs")
	seen := map[string]bool{}
	for i := 0; i < np; i++ {
		p := lPair{App: rapid.IntRange(0, na-1).Draw(rt, fmt.Sprintf("pairapp%d", i)), Base: rapid.IntRange(0, 2).Draw(rt, fmt.Sprintf("base%d", i))}
		p.Quote = (p.Base + 1 + rapid.IntRange(0, 1).Draw(rt, fmt.Sprintf("quote%d", i))) % 3
		key := fmt.Sprintf("%d/%d/%d", p.App, p.Base, p.Quote)
		if seen[key] {
			continue
		}
		seen[key] = true
		cfg.Pairs = append(cfg.Pairs, p)
	}
	for pi := range cfg.Pairs {
		n := rapid.IntRange(0, 2).Draw(rt, fmt.Sprintf("npools%d", pi))
		for j := 0; j < n; j++ {
			cfg.Pools = append(cfg.Pools, genLPool(rt, pi, j > 0 || rapid.Bool().Draw(rt, fmt.Sprintf("ranged%d_%d", pi, j)), fmt.Sprintf("pool%d_%d", pi, j)))
		}
	}
	return cfg
}

func genLPool(rt *rapid.T, pair int, ranged bool, lbl string) lPool {
	mag := rapid.SampledFrom([]string{"1000000", "50000000", "1000000000", "123456789012", "1000000000000000000"}).Draw(rt, lbl+"_mag")
	y := mustInt(mag)
	// price around 1 (between 0.5 and 2)
	pm := rapid.Int64Range(500, 2000).Draw(rt, lbl+"_price")
	x := y.MulRaw(pm).QuoRaw(1000)
	p := lPool{Pair: pair, Ranged: ranged, X: x.String(), Y: y.String(), Snap: true}
	if ranged {
		price := sdk.NewDec(pm).QuoInt64(1000)
		lo := rapid.Int64Range(1, 400).Draw(rt, lbl+"_lo")
		hi := rapid.Int64Range(2, 400).Draw(rt, lbl+"_hi")
		p.Min = price.MulInt64(1000 - lo).QuoInt64(1000).String()
		p.Max = price.MulInt64(1000 + hi).QuoInt64(1000).String()
		switch rapid.IntRange(0, 5).Draw(rt, lbl+"_ini") {
		case 0:
			p.Ini = p.Min
		case 1:
			p.Ini = p.Max
		default:
			p.Ini = price.String()
		}
	}
	return p
}

func newLMachine(t rec.TB, r *rec.Rec, prop string, cs *lCase) *lMachine {
	m := &lMachine{t: t, r: r, prop: prop, cs: cs, feeExp: map[string]sdk.Int{}, mmInit: map[string]sdk.Int{}, ok: map[string]int{}, c06Req: map[string][3]interface{}{}, c06Neg: map[string]bool{}}
	cfg := &cs.Cfg
	m.c = world.NewChain(world.Options{Seed: cfg.Seed, NumAccs: lNumLP + lNumMM + lMaxTrade})
	c := m.c
	m.k = c.App.LiquidityKeeper
	c.PrepareDefi()
	for i, d := range cfg.Denoms {
		c.AddAsset(fmt.Sprintf("AST%c", 'A'+i), d, 6, 1000000, true)
	}
	for i := range cfg.Apps {
		a := &cfg.Apps[i]
		a.ID = c.AddApp(fmt.Sprintf("app%c", 'a'+i))
		p := liqtypes.DefaultGenericParams(a.ID)
		p.BatchSize = a.Batch
		p.SwapFeeRate = sdk.MustNewDecFromStr(a.SwapFee)
		p.WithdrawFeeRate = sdk.MustNewDecFromStr(a.WdFee)
		p.TickPrecision = a.TickPrec
		if a.DistrDenom != "" {
			p.SwapFeeDistrDenom = a.DistrDenom
		}
		m.k.SetGenericParams(c.Ctx, p)
	}
	big := world.Pow10(30)
	for i, u := range c.Accs {
		coins := sdk.NewCoins(sdk.NewCoin("ucmdx", world.Pow10(15)))
		if i < lNumLP+lNumMM {
			for _, d := range cfg.Denoms {
				coins = coins.Add(sdk.NewCoin(d, big))
			}
		}
		c.Fund(u.Addr, coins)
	}
	for i := range cfg.Pairs {
		p := &cfg.Pairs[i]
		res, err := c.Deliver(liqtypes.NewMsgCreatePair(cfg.Apps[p.App].ID, c.Accs[0].Addr, cfg.Denoms[p.Base], cfg.Denoms[p.Quote]))
		_ = res
		if err != nil {
			panic(fmt.Errorf("create pair: %w", err))
		}
		pairs := m.k.GetAllPairs(c.Ctx, cfg.Apps[p.App].ID)
		p.ID = pairs[len(pairs)-1].Id
		if p.ID != cfg.Apps[p.App].ID {
			m.appNePair = true
		}
	}
	for _, pl := range cfg.Pools {
		m.createPool(pl, 0)
	}
	for mk := 0; mk < lNumMM; mk++ {
		for _, d := range cfg.Denoms {
			m.mmInit[fmt.Sprintf("%d/%s", mk, d)] = c.Bal(c.Accs[lNumLP+mk].Addr, d)
		}
	}
	if prop == "C19" {
		m.c19Init()
	}
	c.NextBlock(5 * time.Second)
	return m
}

func (m *lMachine) createPool(pl lPool, lp int) error {
	c, cfg := m.c, &m.cs.Cfg
	pr := cfg.Pairs[pl.Pair]
	app := cfg.Apps[pr.App].ID
	coins := sdk.NewCoins(sdk.NewCoin(cfg.Denoms[pr.Quote], mustInt(pl.X)), sdk.NewCoin(cfg.Denoms[pr.Base], mustInt(pl.Y)))
	var msg sdk.Msg
	if pl.Ranged {
		lo, hi, ini := sdk.MustNewDecFromStr(pl.Min), sdk.MustNewDecFromStr(pl.Max), sdk.MustNewDecFromStr(pl.Ini)
		if pl.Snap {
			prec := int(m.params(app).TickPrecision)
			iniLo, iniHi := ini.Equal(lo), ini.Equal(hi)
			lo, hi = amm.PriceToDownTick(lo, prec), amm.PriceToUpTick(hi, prec)
			if iniLo {
				ini = lo
			} else if iniHi {
				ini = hi
			}
		}
		msg = liqtypes.NewMsgCreateRangedPool(app, c.Accs[lp].Addr, pr.ID, coins, lo, hi, ini)
	} else {
		msg = liqtypes.NewMsgCreatePool(app, c.Accs[lp].Addr, pr.ID, coins)
	}
	before := len(m.k.GetAllPools(c.Ctx, app))
	if _, err := c.Deliver(msg); err != nil {
		return err
	}
	pools := m.k.GetAllPools(c.Ctx, app)
	if len(pools) != before+1 {
		return fmt.Errorf("pool not created")
	}
	np := pools[len(pools)-1]
	for _, q := range pools {
		if q.Id > np.Id {
			np = q
		}
	}
	m.pools = append(m.pools, lPoolRef{app: app, pair: pl.Pair, id: np.Id})
	if m.supExp == nil {
		m.supExp = map[string]sdk.Int{}
	}
	m.supExp[np.PoolCoinDenom] = c.Supply(np.PoolCoinDenom) // pool creation mint
	return nil
}

// ---- helpers ----

func (m *lMachine) pair(i int) (liqtypes.Pair, lPair) {
	lp := m.cs.Cfg.Pairs[i]
	p, _ := m.k.GetPair(m.c.Ctx, m.cs.Cfg.Apps[lp.App].ID, lp.ID)
	return p, lp
}

func (m *lMachine) params(app uint64) liqtypes.GenericParams {
	p, _ := m.k.GetGenericLiquidityParams(m.c.Ctx, app)
	return p
}

func feeOf(amt sdk.Int, rate sdk.Dec) sdk.Int {
	return amt.ToLegacyDec().MulTruncate(rate).TruncateInt()
}

func (m *lMachine) refPrice(pi int) sdk.Dec {
	p, lp := m.pair(pi)
	if p.LastPrice != nil {
		return *p.LastPrice
	}
	for _, pr := range m.pools {
		if pr.pair != pi {
			continue
		}
		pool, ok := m.k.GetPool(m.c.Ctx, pr.app, pr.id)
		if !ok || pool.Disabled {
			continue
		}
		rx, ry := m.k.GetPoolBalances(m.c.Ctx, pool)
		if ry.Amount.IsPositive() && rx.Amount.IsPositive() {
			return rx.Amount.ToLegacyDec().Quo(ry.Amount.ToLegacyDec())
		}
	}
	_ = lp
	return sdk.OneDec()
}

func isLive(s liqtypes.OrderStatus) bool { return s.IsMatchable() }

// ---- op generation ----

func (m *lMachine) genOp(rt *rapid.T, i int) lOp {
	cfg := &m.cs.Cfg
	lbl := func(s string) string { return fmt.Sprintf("%s_%d", s, i) }
	kinds := []string{"limit", "limit", "limit", "limit", "market", "mm", "cancel", "cancelall", "cancelmm", "deposit", "withdraw", "farm", "unfarm", "depositfarm", "unfarmwithdraw", "block", "block", "block", "newpool"}
	if m.prop == "C06" {
		kinds = []string{"deposit", "deposit", "deposit", "depositfarm", "depositfarm", "withdraw", "withdraw", "withdraw", "unfarmwithdraw", "farm", "unfarm", "wforeign", "wforeign", "limit", "block", "block", "block", "block", "newpool", "newpool"}
	} else if m.prop == "C19" {
		kinds = []string{"gauge", "gauge", "gauge", "farm", "farm", "depositfarm", "depositfarm", "depositfarm", "unfarm", "deposit", "withdraw", "epoch", "epoch", "epoch", "epoch", "epoch", "block", "limit", "limit", "oprice", "newpool", "distr"}
	} else if m.prop == "C04" {
		kinds = append(kinds, "deposit", "withdraw", "farm", "unfarm", "block")
	} else {
		kinds = append(kinds, "limit", "limit", "cancel", "mm", "cancelmm", "block")
	}
	k := rapid.SampledFrom(kinds).Draw(rt, lbl("kind"))
	op := lOp{K: k}
	if len(cfg.Pairs) == 0 {
		return lOp{K: "block", Dt: 5}
	}
	amounts := []string{"100", "101", "1000", "12345", "1000000", "999999999", "1000000000000", "1000000000000000000000"}
	switch k {
	case "epoch", "oprice", "gauge", "distr":
		return m.c19GenOp(rt, i, k)
	case "wforeign":
		// two pools of one app
		type pp struct{ a, b int }
		var cands []pp
		for a := range m.pools {
			for b := range m.pools {
				if a != b && m.pools[a].app == m.pools[b].app {
					cands = append(cands, pp{a, b})
				}
			}
		}
		if len(cands) == 0 {
			op.K = "newpool"
			np := genLPool(rt, rapid.IntRange(0, len(cfg.Pairs)-1).Draw(rt, lbl("pair")), rapid.Bool().Draw(rt, lbl("ranged")), lbl("np"))
			op.New = &np
			op.Actor = rapid.IntRange(0, lNumLP-1).Draw(rt, lbl("lp"))
			return op
		}
		x := cands[rapid.IntRange(0, len(cands)-1).Draw(rt, lbl("pools"))]
		op.Pool, op.Order = x.a, x.b
		op.Actor = rapid.IntRange(0, lNumLP-1).Draw(rt, lbl("lp"))
		op.Extra = rapid.SampledFrom([]int64{1, 100, 500, 1000}).Draw(rt, lbl("permille"))
		return op
	case "block":
		op.Dt = rapid.SampledFrom([]int64{5, 5, 6, 60, 3600, 90000}).Draw(rt, lbl("dt"))
	case "limit", "market":
		if m.nextTr >= lMaxTrade {
			return lOp{K: "block", Dt: 5}
		}
		op.Pair = rapid.IntRange(0, len(cfg.Pairs)-1).Draw(rt, lbl("pair"))
		op.Buy = rapid.Bool().Draw(rt, lbl("buy"))
		op.A = rapid.SampledFrom(amounts).Draw(rt, lbl("amt"))
		op.Life = rapid.SampledFrom([]int64{0, 0, 5, 30, 3600, 86400}).Draw(rt, lbl("life"))
		op.Tick = rapid.IntRange(-6, 6).Draw(rt, lbl("tick"))
		op.Extra = rapid.SampledFrom([]int64{0, 0, 1, 1000}).Draw(rt, lbl("extra"))
		if k == "limit" {
			op.Off = rapid.SampledFrom([]int64{0, 0, 0, 1, 250, 500, 999}).Draw(rt, lbl("offtick"))
		}
		if k == "market" {
			if p, _ := m.pair(op.Pair); p.LastPrice == nil {
				op.K = "limit"
			}
		}
	case "mm":
		op.Pair = rapid.IntRange(0, len(cfg.Pairs)-1).Draw(rt, lbl("pair"))
		op.Actor = rapid.IntRange(0, lNumMM-1).Draw(rt, lbl("maker"))
		op.A = rapid.SampledFrom([]string{"0", "100000", "1000000", "123456789"}).Draw(rt, lbl("sell"))
		op.B = rapid.SampledFrom([]string{"0", "100000", "1000000", "123456789"}).Draw(rt, lbl("buyamt"))
		if op.A == "0" && op.B == "0" {
			op.A = "1000000"
		}
		op.Tick = rapid.IntRange(1, 8).Draw(rt, lbl("spread"))
		op.Life = rapid.SampledFrom([]int64{0, 30, 3600}).Draw(rt, lbl("life"))
	case "cancel":
		var live []int
		for j, o := range m.orders {
			if !o.done && !o.mm {
				live = append(live, j)
			}
		}
		if len(live) == 0 {
			return lOp{K: "block", Dt: 5}
		}
		op.Order = rapid.SampledFrom(live).Draw(rt, lbl("order"))
	case "cancelall":
		op.Actor = rapid.IntRange(0, lNumMM-1).Draw(rt, lbl("maker"))
		op.Extra = int64(rapid.IntRange(0, 1).Draw(rt, lbl("withpairs")))
		op.Pair = rapid.IntRange(0, len(cfg.Pairs)-1).Draw(rt, lbl("pair"))
	case "cancelmm":
		op.Actor = rapid.IntRange(0, lNumMM-1).Draw(rt, lbl("maker"))
		op.Pair = rapid.IntRange(0, len(cfg.Pairs)-1).Draw(rt, lbl("pair"))
	case "deposit", "depositfarm", "withdraw", "farm", "unfarm", "unfarmwithdraw":
		if len(m.pools) == 0 {
			op.K = "newpool"
			np := genLPool(rt, rapid.IntRange(0, len(cfg.Pairs)-1).Draw(rt, lbl("pair")), rapid.Bool().Draw(rt, lbl("ranged")), lbl("np"))
			op.New = &np
			return op
		}
		op.Pool = rapid.IntRange(0, len(m.pools)-1).Draw(rt, lbl("pool"))
		op.Actor = rapid.IntRange(0, lNumLP-1).Draw(rt, lbl("lp"))
		switch k {
		case "deposit", "depositfarm":
			op.A = rapid.SampledFrom([]string{"1", "1000", "1000000", "777777777", "1000000000000"}).Draw(rt, lbl("x"))
			op.B = rapid.SampledFrom([]string{"1", "1000", "1000000", "777777777", "1000000000000"}).Draw(rt, lbl("y"))
		default:
			// per-mille of what the actor holds / has farmed; 1000 = everything
			op.Extra = rapid.SampledFrom([]int64{1, 10, 333, 500, 999, 1000, 1000}).Draw(rt, lbl("permille"))
		}
	case "newpool":
		np := genLPool(rt, rapid.IntRange(0, len(cfg.Pairs)-1).Draw(rt, lbl("pair")), rapid.Bool().Draw(rt, lbl("ranged")), lbl("np"))
		op.New = &np
		op.Actor = rapid.IntRange(0, lNumLP-1).Draw(rt, lbl("lp"))
	}
	return op
}

// ---- applying ops ----

func (m *lMachine) apply(i int, op lOp) {
	c, cfg := m.c, &m.cs.Cfg
	if m.prop == "C06" && op.K != "block" {
		pre := m.c06Snap()
		defer func() { m.c06Check(i, "after:"+op.K, pre) }()
	}
	switch op.K {
	case "block":
		m.block(i, op.Dt)
		return
	case "oprice", "gauge", "distr", "feegift":
		m.c19Apply(i, op)
	case "limit", "market":
		m.placeOrder(i, op)
	case "mm":
		m.mmOrder(i, op)
	case "cancel":
		o := m.orders[op.Order]
		cur, found := m.k.GetOrder(c.Ctx, o.app, cfg.Pairs[o.pair].ID, o.id)
		pair, _ := m.pair(o.pair)
		_, err := c.Deliver(liqtypes.NewMsgCancelOrder(o.app, c.Accs[o.trader].Addr, cfg.Pairs[o.pair].ID, o.id))
		if err == nil {
			m.ok["cancel"]++
		} else if m.prop == "C07" && found && isLive(cur.Status) && cur.BatchId < pair.CurrentBatchId {
			m.fail("C07.cancel-by-owner-succeeds", "limit-or-market", "step %d: owner cannot cancel live order %d (batch %d, current batch %d): %v", i, o.id, cur.BatchId, pair.CurrentBatchId, err)
		}
	case "cancelall":
		app := cfg.Apps[cfg.Pairs[op.Pair].App].ID
		var ids []uint64
		if op.Extra == 1 {
			ids = []uint64{cfg.Pairs[op.Pair].ID}
		}
		maker := c.Accs[lNumLP+op.Actor].Addr
		// orders of this owner that cancel-all must cancel: live, in scope, not in their placement batch
		var due []liqtypes.Order
		pairsSeen := map[uint64]bool{}
		for _, o := range m.k.GetOrdersByOrderer(c.Ctx, app, maker) {
			if len(ids) == 1 && o.PairId != ids[0] {
				continue
			}
			pr, _ := m.k.GetPair(c.Ctx, app, o.PairId)
			if isLive(o.Status) && o.BatchId < pr.CurrentBatchId {
				due = append(due, o)
				pairsSeen[o.PairId] = true
			}
		}
		if _, err := c.Deliver(liqtypes.NewMsgCancelAllOrders(app, maker, ids)); err == nil {
			m.ok["cancelall"]++
			if len(pairsSeen) >= 2 {
				m.r.Class("cancel-all-over-several-pairs")
			}
			if m.prop == "C07" {
				for _, o := range due {
					cur, ok := m.k.GetOrder(c.Ctx, app, o.PairId, o.Id)
					if ok && cur.Status != liqtypes.OrderStatusCanceled {
						scope := "all-pairs"
						if len(ids) == 1 {
							scope = "listed-pairs"
						}
						m.fail("C07.cancel-all-cancels-every-order", scope, "step %d: cancel-all by the owner succeeded but order %d of pair %d is still %s", i, o.Id, o.PairId, cur.Status)
					}
				}
			}
		} else if m.prop == "C07" && len(due) > 0 {
			m.fail("C07.cancel-by-owner-succeeds", "cancel-all", "step %d: cancel-all of %d cancellable orders failed: %v", i, len(due), err)
		}
	case "cancelmm":
		m.cancelMM(i, op)
	case "deposit", "depositfarm":
		pr := m.pools[op.Pool]
		lp := cfg.Pairs[pr.pair]
		coins := sdk.NewCoins(sdk.NewCoin(cfg.Denoms[lp.Quote], mustInt(op.A)), sdk.NewCoin(cfg.Denoms[lp.Base], mustInt(op.B)))
		var msg sdk.Msg = liqtypes.NewMsgDeposit(pr.app, c.Accs[op.Actor].Addr, pr.id, coins)
		if op.K == "depositfarm" {
			msg = liqtypes.NewMsgDepositAndFarm(pr.app, c.Accs[op.Actor].Addr, pr.id, coins)
		}
		if _, err := c.Deliver(msg); err == nil {
			m.ok[op.K]++
		}
	case "withdraw", "farm":
		pr := m.pools[op.Pool]
		pool, _ := m.k.GetPool(c.Ctx, pr.app, pr.id)
		have := c.Bal(c.Accs[op.Actor].Addr, pool.PoolCoinDenom)
		amt := have.MulRaw(op.Extra).QuoRaw(1000)
		if !amt.IsPositive() {
			amt = sdk.OneInt()
		}
		var msg sdk.Msg = liqtypes.NewMsgWithdraw(pr.app, c.Accs[op.Actor].Addr, pr.id, sdk.NewCoin(pool.PoolCoinDenom, amt))
		if op.K == "farm" {
			msg = liqtypes.NewMsgFarm(pr.app, pr.id, c.Accs[op.Actor].Addr, sdk.NewCoin(pool.PoolCoinDenom, amt))
		}
		if _, err := c.Deliver(msg); err == nil {
			m.ok[op.K]++
		}
	case "unfarm", "unfarmwithdraw":
		pr := m.pools[op.Pool]
		pool, _ := m.k.GetPool(c.Ctx, pr.app, pr.id)
		farmed := sdk.ZeroInt()
		if af, ok := m.k.GetActiveFarmer(c.Ctx, pr.app, pr.id, c.Accs[op.Actor].Addr); ok {
			farmed = farmed.Add(af.FarmedPoolCoin.Amount)
		}
		if qf, ok := m.k.GetQueuedFarmer(c.Ctx, pr.app, pr.id, c.Accs[op.Actor].Addr); ok {
			for _, q := range qf.QueudCoins {
				farmed = farmed.Add(q.FarmedPoolCoin.Amount)
			}
		}
		amt := farmed.MulRaw(op.Extra).QuoRaw(1000)
		if !amt.IsPositive() {
			amt = sdk.OneInt()
		}
		before := c.Bal(c.Accs[op.Actor].Addr, pool.PoolCoinDenom)
		var msg sdk.Msg = liqtypes.NewMsgUnfarm(pr.app, pr.id, c.Accs[op.Actor].Addr, sdk.NewCoin(pool.PoolCoinDenom, amt))
		if op.K == "unfarmwithdraw" {
			msg = liqtypes.NewMsgUnfarmAndWithdraw(pr.app, pr.id, c.Accs[op.Actor].Addr, sdk.NewCoin(pool.PoolCoinDenom, amt))
		}
		if _, err := c.Deliver(msg); err == nil {
			m.ok[op.K]++
			if op.K == "unfarm" && m.prop == "C04" {
				if got := c.Bal(c.Accs[op.Actor].Addr, pool.PoolCoinDenom).Sub(before); !got.Equal(amt) {
					m.fail("C04.unfarm-returns-pool-coins", "unfarm", "step %d: unfarm of %s returned %s pool coins", i, amt, got)
				}
			}
		}
	case "newpool":
		if err := m.createPool(*op.New, op.Actor); err == nil {
			m.ok["newpool"]++
		} else if debugErrs {
			m.r.Class(fmt.Sprintf("err:newpool:%.70v", err))
		}
	case "wforeign":
		// a withdrawal from pool op.Pool that offers the share coin of another pool (op.Order) of the same app
		pr, other := m.pools[op.Pool], m.pools[op.Order]
		opool, _ := m.k.GetPool(c.Ctx, other.app, other.id)
		have := c.Bal(c.Accs[op.Actor].Addr, opool.PoolCoinDenom)
		amt := have.MulRaw(op.Extra).QuoRaw(1000)
		if amt.IsPositive() {
			if _, err := c.Deliver(liqtypes.NewMsgWithdraw(pr.app, c.Accs[op.Actor].Addr, pr.id, sdk.NewCoin(opool.PoolCoinDenom, amt))); err == nil {
				m.ok["wforeign"]++
			}
		}
	}
	m.trackOrders(i)
	m.invariants(i, "after:"+op.K, false)
}

func (m *lMachine) placeOrder(i int, op lOp) {
	c, cfg := m.c, &m.cs.Cfg
	pair, lp := m.pair(op.Pair)
	app := cfg.Apps[lp.App].ID
	params := m.params(app)
	prec := int(params.TickPrecision)
	amt := mustInt(op.A)
	ref := m.refPrice(op.Pair)
	idx := amm.TickToIndex(amm.PriceToDownTick(ref, prec), prec) + op.Tick
	if idx < 0 {
		idx = 0
	}
	price := amm.TickFromIndex(idx, prec)
	if op.K == "limit" && op.Off > 0 {
		// a price between two ticks: the module rounds it to a tick itself
		next := amm.TickFromIndex(idx+1, prec)
		price = price.Add(next.Sub(price).MulInt64(op.Off).QuoInt64(1000))
	}
	trader := lNumLP + lNumMM + m.nextTr
	addr := c.Accs[trader].Addr
	var offerDen, demDen string
	var offer sdk.Int
	dir := liqtypes.OrderDirectionSell
	if op.Buy {
		dir = liqtypes.OrderDirectionBuy
		offerDen, demDen = pair.QuoteCoinDenom, pair.BaseCoinDenom
		if op.K == "market" {
			maxPrice := pair.LastPrice.Mul(sdk.OneDec().Add(params.MaxPriceLimitRatio))
			offer = amm.OfferCoinAmount(amm.Buy, maxPrice, amt)
		} else {
			offer = amm.OfferCoinAmount(amm.Buy, price, amt)
		}
	} else {
		offerDen, demDen = pair.BaseCoinDenom, pair.QuoteCoinDenom
		offer = amt
	}
	// the message offers the order's coin plus the swap-fee reserve, plus sometimes a little more (refunded)
	msgOffer := offer.Add(feeOf(offer, params.SwapFeeRate)).AddRaw(op.Extra)
	c.Fund(addr, sdk.NewCoins(sdk.NewCoin(offerDen, msgOffer.AddRaw(7))))
	o := &lOrder{trader: trader, app: app, pair: op.Pair, buy: op.Buy, offerDen: offerDen, demDen: demDen,
		initOffer: c.Bal(addr, offerDen), initDem: c.Bal(addr, demDen)}
	var msg sdk.Msg
	life := time.Duration(op.Life) * time.Second
	if op.K == "market" {
		msg = liqtypes.NewMsgMarketOrder(app, addr, lp.ID, dir, sdk.NewCoin(offerDen, msgOffer), demDen, amt, life)
	} else {
		msg = liqtypes.NewMsgLimitOrder(app, addr, lp.ID, dir, sdk.NewCoin(offerDen, msgOffer), demDen, price, amt, life)
	}
	before := m.k.GetOrdersByOrderer(c.Ctx, app, addr)
	if _, err := c.Deliver(msg); err != nil {
		return
	}
	m.nextTr++
	m.ok[op.K]++
	after := m.k.GetOrdersByOrderer(c.Ctx, app, addr)
	if len(after) != len(before)+1 {
		m.fail(m.prop+".order-recorded", op.K, "step %d: order accepted but not stored", i)
	}
	o.id, o.last = after[len(after)-1].Id, after[len(after)-1]
	m.orders = append(m.orders, o)
	if m.prop == "C07" {
		taken := o.initOffer.Sub(c.Bal(addr, offerDen))
		want := o.last.OfferCoin.Amount.Add(feeOf(o.last.OfferCoin.Amount, params.SwapFeeRate))
		if !taken.Equal(want) {
			m.fail("C07.taken-equals-offer-plus-fee-reserve", op.K, "step %d: placing order %d took %s, offer coin %s + fee reserve %s", i, o.id, taken, o.last.OfferCoin.Amount, feeOf(o.last.OfferCoin.Amount, params.SwapFeeRate))
		}
	}
}

func (m *lMachine) mmOrder(i int, op lOp) {
	c, cfg := m.c, &m.cs.Cfg
	_, lp := m.pair(op.Pair)
	app := cfg.Apps[lp.App].ID
	params := m.params(app)
	prec := int(params.TickPrecision)
	ref := m.refPrice(op.Pair)
	base := amm.TickToIndex(amm.PriceToDownTick(ref, prec), prec)
	tk := func(d int) sdk.Dec {
		if base+d < 0 {
			return amm.TickFromIndex(0, prec)
		}
		return amm.TickFromIndex(base+d, prec)
	}
	maker := c.Accs[lNumLP+op.Actor].Addr
	prev := m.mmIndexed(app, lp.ID, maker)
	msg := liqtypes.NewMsgMMOrder(app, maker, lp.ID, tk(op.Tick+3), tk(1), mustInt(op.A), tk(-1), tk(-op.Tick-3), mustInt(op.B), time.Duration(op.Life)*time.Second)
	if _, err := c.Deliver(msg); err != nil {
		return
	}
	m.ok["mm"]++
	if len(prev) >= 2 {
		m.mmReplace++
	}
	m.checkMMCancelled(i, "mm-replace", app, lp.ID, prev)
	idx, _ := m.k.GetMMOrderIndex(c.Ctx, maker, app, lp.ID)
	for _, id := range idx.OrderIds {
		ord, ok := m.k.GetOrder(c.Ctx, app, lp.ID, id)
		if !ok {
			continue
		}
		m.orders = append(m.orders, &lOrder{trader: lNumLP + op.Actor, app: app, pair: op.Pair, id: id, mm: true, buy: ord.Direction == liqtypes.OrderDirectionBuy,
			offerDen: ord.OfferCoin.Denom, demDen: ord.ReceivedCoin.Denom, last: ord})
	}
}

// mmIndexed returns the maker's previously indexed MM orders that are live.
func (m *lMachine) mmIndexed(app, pairID uint64, maker sdk.AccAddress) []liqtypes.Order {
	var out []liqtypes.Order
	idx, ok := m.k.GetMMOrderIndex(m.c.Ctx, maker, app, pairID)
	if !ok {
		return nil
	}
	for _, id := range idx.OrderIds {
		if ord, ok := m.k.GetOrder(m.c.Ctx, app, pairID, id); ok && isLive(ord.Status) {
			out = append(out, ord)
		}
	}
	return out
}

func (m *lMachine) checkMMCancelled(i int, what string, app, pairID uint64, prev []liqtypes.Order) {
	if m.prop != "C07" {
		return
	}
	ctx := what
	if app != pairID {
		ctx += ",app-id-differs-from-pair-id"
	} else {
		ctx += ",app-id-equals-pair-id"
	}
	for _, p := range prev {
		cur, ok := m.k.GetOrder(m.c.Ctx, app, pairID, p.Id)
		if ok && cur.Status != liqtypes.OrderStatusCanceled {
			m.fail("C07.mm-cancel-cancels-all-previous", ctx, "step %d: previously placed market-making order %d of app %d pair %d is still %s after %s", i, p.Id, app, pairID, cur.Status, what)
		}
	}
}

func (m *lMachine) cancelMM(i int, op lOp) {
	c, cfg := m.c, &m.cs.Cfg
	_, lp := m.pair(op.Pair)
	app := cfg.Apps[lp.App].ID
	maker := c.Accs[lNumLP+op.Actor].Addr
	prev := m.mmIndexed(app, lp.ID, maker)
	if _, err := c.Deliver(liqtypes.NewMsgCancelMMOrder(app, maker, lp.ID)); err != nil {
		return
	}
	m.ok["cancelmm"]++
	if len(prev) >= 2 {
		m.mmReplace++
	}
	m.checkMMCancelled(i, "mm-cancel", app, lp.ID, prev)
}

// ---- blocks ----

func (m *lMachine) block(i int, dt int64) {
	c := m.c
	var c06pre map[string]c06Pool
	if m.prop == "C06" {
		c06pre = m.c06Snap()
	}
	if err := c.EndBlockObserveRecover(); err != nil {
		m.fail(m.prop+".block-hook-panic", "end-block", "step %d: %v", i, err)
	}
	m.trackOrders(i)
	m.invariants(i, "end-block", true)
	if c06pre != nil {
		// judged here, while the executed requests are still on record (the next begin-block deletes them)
		m.c06Check(i, "block", c06pre)
	}
	var c19pre *c19Snap
	c19vals := map[string]map[string]*big.Rat{}
	if m.prop == "C19" {
		m.c19Sync(i)
		c19pre = m.c19Pre()
		for _, a := range m.cs.Cfg.Apps {
			for _, p := range m.k.GetAllPools(c.Ctx, a.ID) {
				c19vals[fmt.Sprintf("%d/%d", a.ID, p.Id)] = m.c19PoolValues(a.ID, p.Id)
			}
		}
	}
	if err := c.NextBlockRecover(time.Duration(dt) * time.Second); err != nil {
		m.fail(m.prop+".block-hook-panic", "begin-block", "step %d: %v", i, err)
	}
	if m.prop == "C19" {
		m.c19Post(i, c19pre, func(app, pool uint64) map[string]*big.Rat { return c19vals[fmt.Sprintf("%d/%d", app, pool)] })
	}
	if c.Height%150 == 0 {
		m.converted = true
	}
	m.ok["block"]++
	m.invariants(i, "begin-block", false)
}

var lSeen = map[*lMachine]map[string]bool{}

func (m *lMachine) seenReq(kind string, app, pool, id uint64) bool {
	if lSeen[m] == nil {
		lSeen[m] = map[string]bool{}
	}
	k := fmt.Sprintf("%s/%d/%d/%d", kind, app, pool, id)
	if lSeen[m][k] {
		return true
	}
	lSeen[m][k] = true
	return false
}

// trackOrders refreshes every tracked order from the store, checks per-order
// laws and, when an order has terminated, its final settlement.
func (m *lMachine) trackOrders(i int) {
	c, cfg := m.c, &m.cs.Cfg
	for _, o := range m.orders {
		if o.done {
			continue
		}
		cur, found := m.k.GetOrder(c.Ctx, o.app, cfg.Pairs[o.pair].ID, o.id)
		if !found {
			if m.prop == "C20" || m.prop == "C16" {
				o.done = true // differential runs end blocks outside the machine's block operation
				continue
			}
			// deleted before we saw it terminate: cannot happen with end-block observation
			m.fail(m.prop+".order-vanished", "tracking", "step %d: order %d disappeared while live", i, o.id)
		}
		if cur.OpenAmount.LT(o.last.OpenAmount) {
			m.matched++
			if cur.OpenAmount.IsPositive() {
				o.partial = true
			}
		}
		o.last = cur
		kind := "limit-or-market"
		if o.mm {
			kind = "mm"
		}
		if m.prop == "C05" {
			filled := cur.Amount.Sub(cur.OpenAmount)
			paid := cur.OfferCoin.Amount.Sub(cur.RemainingOfferCoin.Amount)
			switch {
			case cur.OpenAmount.IsNegative():
				m.fail("C05.keeper-fill-within-amount", kind, "step %d: order %d (amount %s) has open amount %s", i, o.id, cur.Amount, cur.OpenAmount)
			case cur.RemainingOfferCoin.Amount.IsNegative():
				m.fail("C05.keeper-paid-within-offer", kind, "step %d: order %d paid more than its offer coin: remaining %s", i, o.id, cur.RemainingOfferCoin)
			case o.buy && !cur.ReceivedCoin.Amount.Equal(filled):
				m.fail("C05.keeper-buy-receives-filled", kind, "step %d: buy order %d filled %s but received %s", i, o.id, filled, cur.ReceivedCoin)
			case !o.buy && !paid.Equal(filled):
				m.fail("C05.keeper-sell-pays-filled", kind, "step %d: sell order %d filled %s but paid %s", i, o.id, filled, paid)
			case filled.IsPositive() && !cur.ReceivedCoin.Amount.IsPositive():
				m.fail("C05.keeper-matched-receives-positive", kind, "step %d: order %d filled %s but received nothing", i, o.id, filled)
			}
			if filled.IsPositive() {
				// limit price: every fill is at a price no worse than the order's own; the
				// number of fills is not observable at keeper level, so allow one quote
				// unit per batch the order lived through (each batch fills it at most a
				// bounded number of times; we allow 64 per batch, far below any real defect)
				batches := sdk.NewInt(64).MulRaw(int64(m.ok["block"] + 2))
				if o.buy && paid.ToLegacyDec().GT(cur.Price.MulInt(filled).Add(batches.ToLegacyDec())) {
					m.fail("C05.keeper-buy-limit-price", kind, "step %d: buy order %d paid %s for %s at limit %s", i, o.id, paid, filled, cur.Price)
				}
				if !o.buy && cur.ReceivedCoin.Amount.ToLegacyDec().LT(cur.Price.MulInt(filled).Sub(batches.ToLegacyDec())) {
					m.fail("C05.keeper-sell-limit-price", kind, "step %d: sell order %d received %s for %s at limit %s", i, o.id, cur.ReceivedCoin, filled, cur.Price)
				}
			}
		}
		if !isLive(cur.Status) {
			o.done = true
			if o.partial && cur.Status != liqtypes.OrderStatusCompleted {
				m.partialNC++
			}
			m.ok["ended:"+cur.Status.String()]++
			if !o.mm {
				rate := m.params(o.app).SwapFeeRate
				paid := cur.OfferCoin.Amount.Sub(cur.RemainingOfferCoin.Amount)
				earned := feeOf(paid, rate)
				key := fmt.Sprintf("%d/%s", o.pair, o.offerDen)
				if _, ok := m.feeExp[key]; !ok {
					m.feeExp[key] = sdk.ZeroInt()
				}
				m.feeExp[key] = m.feeExp[key].Add(earned)
			}
		}
		if m.prop == "C07" && !o.mm {
			m.settlement(i, o)
		}
	}
}

// settlement checks the orderer's balances against the order record.
func (m *lMachine) settlement(i int, o *lOrder) {
	c := m.c
	addr := c.Accs[o.trader].Addr
	rate := m.params(o.app).SwapFeeRate
	cur := o.last
	balOffer, balDem := c.Bal(addr, o.offerDen), c.Bal(addr, o.demDen)
	state := "live"
	wantOffer := o.initOffer.Sub(cur.OfferCoin.Amount).Sub(feeOf(cur.OfferCoin.Amount, rate))
	if o.done {
		state = "ended:" + cur.Status.String()
		paid := cur.OfferCoin.Amount.Sub(cur.RemainingOfferCoin.Amount)
		wantOffer = o.initOffer.Sub(paid).Sub(feeOf(paid, rate))
	}
	if !balOffer.Equal(wantOffer) {
		m.fail("C07.offer-coin-settlement", state, "step %d: order %d (%s): orderer holds %s%s, expected %s (initial %s, offer %s, remaining %s, fee rate %s)", i, o.id, cur.Status, balOffer, o.offerDen, wantOffer, o.initOffer, cur.OfferCoin.Amount, cur.RemainingOfferCoin.Amount, rate)
	}
	if want := o.initDem.Add(cur.ReceivedCoin.Amount); !balDem.Equal(want) {
		m.fail("C07.demand-coin-settlement", state, "step %d: order %d (%s): orderer holds %s%s, expected initial %s + received %s", i, o.id, cur.Status, balDem, o.demDen, o.initDem, cur.ReceivedCoin.Amount)
	}
}

// ---- invariants ----

func (m *lMachine) invariants(i int, when string, afterBatch bool) {
	switch m.prop {
	case "C04":
		m.c04Invariants(i, when)
	case "C07":
		m.c07Invariants(i, when)
	}
}

func (m *lMachine) c04Invariants(i int, when string) {
	c, cfg := m.c, &m.cs.Cfg
	// 1. global escrow >= all pending requests of all apps together
	need := sdk.Coins{}
	for _, a := range cfg.Apps {
		for _, req := range m.k.GetAllDepositRequests(c.Ctx, a.ID) {
			if req.Status == liqtypes.RequestStatusNotExecuted {
				need = need.Add(req.DepositCoins...)
			}
		}
		for _, req := range m.k.GetAllWithdrawRequests(c.Ctx, a.ID) {
			if req.Status == liqtypes.RequestStatusNotExecuted {
				need = need.Add(req.PoolCoin)
			}
		}
	}
	have := c.App.BankKeeper.GetAllBalances(c.Ctx, liqtypes.GlobalEscrowAddress)
	if !have.IsAllGTE(need) {
		m.fail("C04.global-escrow-backs-requests", when, "step %d: global escrow holds %s, pending requests of all apps need %s", i, have, need)
	}
	// 2. pair escrow >= remaining offer coins of live orders
	for pi := range cfg.Pairs {
		pair, lp := m.pair(pi)
		need := sdk.Coins{}
		for _, o := range m.k.GetAllOrders(c.Ctx, cfg.Apps[lp.App].ID) {
			if o.PairId == lp.ID && isLive(o.Status) {
				need = need.Add(o.RemainingOfferCoin)
			}
		}
		have := c.App.BankKeeper.GetAllBalances(c.Ctx, pair.GetEscrowAddress())
		if !have.IsAllGTE(need) {
			m.fail("C04.pair-escrow-backs-orders", when, "step %d: escrow of app %d pair %d holds %s, live orders need %s", i, cfg.Apps[lp.App].ID, lp.ID, have, need)
		}
	}
	// 3. module account holds exactly the farmed pool coins; 4. zero supply => disabled
	modAddr := authtypes.NewModuleAddress(liqtypes.ModuleName)
	for _, pr := range m.pools {
		pool, _ := m.k.GetPool(c.Ctx, pr.app, pr.id)
		farmed := sdk.ZeroInt()
		for _, af := range m.k.GetAllActiveFarmers(c.Ctx, pr.app, pr.id) {
			farmed = farmed.Add(af.FarmedPoolCoin.Amount)
		}
		for _, qf := range m.k.GetAllQueuedFarmers(c.Ctx, pr.app, pr.id) {
			for _, q := range qf.QueudCoins {
				farmed = farmed.Add(q.FarmedPoolCoin.Amount)
			}
		}
		if held := c.Bal(modAddr, pool.PoolCoinDenom); !held.Equal(farmed) {
			m.fail("C04.farmed-pool-coins-held", when, "step %d: module account holds %s of %s, farmed (queued+active) records say %s", i, held, pool.PoolCoinDenom, farmed)
		}
		if c.Supply(pool.PoolCoinDenom).IsZero() {
			if !pool.Disabled {
				m.fail("C04.zero-supply-pool-disabled", when, "step %d: pool %d of app %d has no pool coin supply but is not disabled", i, pr.id, pr.app)
			}
		}
	}
	m.supplyCheck(i, when)
	// cross-check: the module's own registered invariants
	if msg, broken := liqkeeper.AllInvariants(m.k)(c.Ctx); broken {
		m.fail("C04.module-invariant", when, "step %d: %s", i, msg)
	}
}

// supplyCheck: pool coin supply changes only by pool creation and by deposits
// and withdrawals executed against that pool (requests are observed the moment
// they turn Succeeded: in the transaction for deposit-and-farm /
// unfarm-and-withdraw, at the end of the batch otherwise).
func (m *lMachine) supplyCheck(i int, when string) {
	c := m.c
	if m.supExp == nil {
		m.supExp = map[string]sdk.Int{}
	}
	for _, pr := range m.pools {
		pool, _ := m.k.GetPool(c.Ctx, pr.app, pr.id)
		exp, ok := m.supExp[pool.PoolCoinDenom]
		if !ok {
			exp = c.Supply(pool.PoolCoinDenom) // pool creation
		}
		for _, req := range m.k.GetAllDepositRequests(c.Ctx, pr.app) {
			if req.PoolId == pr.id && req.Status == liqtypes.RequestStatusSucceeded && !m.seenReq("d", pr.app, pr.id, req.Id) {
				exp = exp.Add(req.MintedPoolCoin.Amount)
				m.execDep++
			}
		}
		for _, req := range m.k.GetAllWithdrawRequests(c.Ctx, pr.app) {
			if req.PoolId == pr.id && req.Status == liqtypes.RequestStatusSucceeded && !m.seenReq("w", pr.app, pr.id, req.Id) {
				exp = exp.Sub(req.PoolCoin.Amount)
				m.execWd++
			}
		}
		m.supExp[pool.PoolCoinDenom] = exp
		if got := c.Supply(pool.PoolCoinDenom); !got.Equal(exp) {
			m.fail("C04.pool-coin-supply-changes", when, "step %d: pool coin supply of %s is %s, pool creation and executed deposits/withdrawals explain %s", i, pool.PoolCoinDenom, got, exp)
		}
		if c.Supply(pool.PoolCoinDenom).IsZero() {
			m.drained++
		}
	}
}

func (m *lMachine) c07Invariants(i int, when string) {
	c, cfg := m.c, &m.cs.Cfg
	// escrow equality: nothing of a terminated order remains
	for pi := range cfg.Pairs {
		pair, lp := m.pair(pi)
		app := cfg.Apps[lp.App].ID
		rate := m.params(app).SwapFeeRate
		need := map[string]sdk.Int{pair.BaseCoinDenom: sdk.ZeroInt(), pair.QuoteCoinDenom: sdk.ZeroInt()}
		for _, o := range m.k.GetAllOrders(c.Ctx, app) {
			if o.PairId != lp.ID || !isLive(o.Status) {
				continue
			}
			v := o.RemainingOfferCoin.Amount
			if o.Type != liqtypes.OrderTypeMM {
				v = v.Add(feeOf(o.OfferCoin.Amount, rate))
			}
			need[o.OfferCoin.Denom] = need[o.OfferCoin.Denom].Add(v)
		}
		for d, n := range need {
			if have := c.Bal(pair.GetEscrowAddress(), d); !have.Equal(n) {
				ctx := when
				if app != lp.ID {
					ctx += ",app-id-differs-from-pair-id"
				}
				m.fail("C07.escrow-holds-exactly-live-orders", ctx, "step %d: escrow of app %d pair %d holds %s%s, live orders (remaining offer + fee reserve) account for %s", i, app, lp.ID, have, d, n)
			}
		}
		// swap-fee collector received exactly the earned fees
		if !m.converted {
			for _, d := range []string{pair.BaseCoinDenom, pair.QuoteCoinDenom} {
				exp, ok := m.feeExp[fmt.Sprintf("%d/%s", pi, d)]
				if !ok {
					exp = sdk.ZeroInt()
				}
				if have := c.Bal(pair.GetSwapFeeCollectorAddress(), d); !have.Equal(exp) {
					m.fail("C07.swap-fee-collector-gets-earned-fees", when, "step %d: swap fee collector of pair %d holds %s%s, fees earned on executed portions are %s", i, lp.ID, have, d, exp)
				}
			}
		}
	}
	// market makers: aggregate identity over all their MM orders (no swap fee on MM orders)
	if when == "end-block" || when == "begin-block" {
		for mk := 0; mk < lNumMM; mk++ {
			exp := map[string]sdk.Int{}
			for _, d := range cfg.Denoms {
				exp[d] = m.mmInit[fmt.Sprintf("%d/%s", mk, d)]
			}
			for _, o := range m.orders {
				if !o.mm || o.trader != lNumLP+mk {
					continue
				}
				out := o.last.OfferCoin.Amount
				if o.done {
					out = o.last.OfferCoin.Amount.Sub(o.last.RemainingOfferCoin.Amount)
				}
				exp[o.offerDen] = exp[o.offerDen].Sub(out)
				exp[o.demDen] = exp[o.demDen].Add(o.last.ReceivedCoin.Amount)
			}
			for _, d := range cfg.Denoms {
				if have := c.Bal(c.Accs[lNumLP+mk].Addr, d); !have.Equal(exp[d]) {
					m.fail("C07.mm-maker-settlement", when, "step %d: market maker %d holds %s%s, its market-making orders account for %s", i, mk, have, d, exp[d])
				}
			}
		}
	}
}

// ---- running ----

func (m *lMachine) finish() {
	for _, k := range sortedKeys(m.c.HandlerPanics) {
		m.r.ClassN("handler-panic:"+k, m.c.HandlerPanics[k])
	}
	delete(lSeen, m)
	r := m.r
	for k, n := range m.ok {
		r.ClassN("ok:"+k, n)
	}
	r.ClassN("matched-order-batches", m.matched)
	if m.appNePair {
		r.Class("app-id-differs-from-pair-id")
	}
	switch m.prop {
	case "C19":
		m.c19Finish()
	case "C04":
		if m.execDep > 0 && m.execWd > 0 && m.matched > 0 && m.ok["farm"]+m.ok["depositfarm"] > 0 && m.ok["unfarm"]+m.ok["unfarmwithdraw"] > 0 {
			r.NonTrivial(m.cs)
		}
	case "C07":
		if m.partialNC > 0 || m.mmReplace > 0 {
			r.NonTrivial(m.cs)
		}
	case "C05":
		if m.matched >= 2 {
			r.NonTrivial(m.cs)
		}
	}
}

func liqCheck(t *testing.T, prop, sub string) {
	r := rec.New(prop, sub)
	t.Cleanup(r.Flush)
	rapid.Check(t, func(rt *rapid.T) {
		r.Guard(func() {
			r.Eval()
			cs := &lCase{Cfg: genLCfg(rt)}
			m := newLMachine(rt, r, prop, cs)
			n := rapid.IntRange(10, 60).Draw(rt, "nops")
			for i := 0; i < n; i++ {
				op := m.genOp(rt, i)
				cs.Ops = append(cs.Ops, op)
				m.apply(i, op)
			}
			// let everything settle: a few more blocks, time past every lifespan
			for j := 0; j < 4; j++ {
				op := lOp{K: "block", Dt: []int64{5, 5, 90000, 5}[j]}
				cs.Ops = append(cs.Ops, op)
				m.apply(n+j, op)
			}
			m.finish()
		})
	})
}

func liqReplay(prop string) func(t *testing.T, r *rec.Rec, raw json.RawMessage) {
	return func(t *testing.T, r *rec.Rec, raw json.RawMessage) {
		var cs lCase
		if err := json.Unmarshal(raw, &cs); err != nil {
			t.Fatal(err)
		}
		r.Eval()
		m := newLMachine(t, r, prop, &cs)
		for i, op := range cs.Ops {
			m.apply(i, op)
		}
		m.finish()
	}
}

func TestC04_liquidity(t *testing.T) { liqCheck(t, "C04", "liquidity") }
func TestC07_orders(t *testing.T)    { liqCheck(t, "C07", "orders") }
func TestC05_keeper(t *testing.T)    { liqCheck(t, "C05", "keeper") }

func init() {
	replayers["C04.liquidity"] = liqReplay("C04")
	replayers["C07.orders"] = liqReplay("C07")
	replayers["C05.keeper"] = liqReplay("C05")
}

var _ = sdkmath.ZeroInt
