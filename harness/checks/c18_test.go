package checks

// C18 — accrual is non-negative, zero over zero time, monotone and sub-additive;
// the borrow/lend rate model is monotone, starts at the base rate, is continuous
// at the kink and keeps lend <= borrow. Metamorphic relations over generated
// tuples; exact comparison in sdk.Dec / big.Rat with stated tolerances.

import (
	"encoding/json"
	"fmt"
	"math"
	"math/big"
	"sync"
	"testing"
	"time"

	sdk "github.com/cosmos/cosmos-sdk/types"
	"pgregory.net/rapid"

	assettypes "github.com/comdex-official/comdex/x/asset/types"
	lendtypes "github.com/comdex-official/comdex/x/lend/types"

	"verif/rec"
	"verif/world"
)

var (
	c18Once  sync.Once
	c18Chain *world.Chain
	c18T0    = time.Unix(1700000000, 0).UTC()
	c18Asset uint64
)

const c18Year = 31557600

func c18Setup() {
	c18Once.Do(func() {
		c := world.NewChain(world.Options{Seed: 18})
		if err := c.App.AssetKeeper.AddAssetRecords(c.Ctx, assettypes.Asset{Name: "CMDX", Denom: "ucmdx", Decimals: sdk.NewInt(1000000), IsOnChain: true, IsOraclePriceRequired: true}); err != nil {
			panic(err)
		}
		for _, a := range c.App.AssetKeeper.GetAssets(c.Ctx) {
			if a.Denom == "ucmdx" {
				c18Asset = a.Id
			}
		}
		c18Chain = c
	})
}

// ---- generators ----

func genPrincipal(rt *rapid.T, label string) int64 {
	switch rapid.IntRange(0, 5).Draw(rt, label+"_k") {
	case 0:
		return rapid.Int64Range(0, 1000).Draw(rt, label+"_s")
	case 1:
		return rapid.SampledFrom([]int64{1, 999999, 1000000, 1000001, 1 << 53, 1<<53 + 1, math.MaxInt64, math.MaxInt64 - 1, 1 << 62}).Draw(rt, label+"_c")
	default:
		e := rapid.IntRange(0, 18).Draw(rt, label+"_e")
		m := rapid.Int64Range(1, 9223).Draw(rt, label+"_m")
		v := new(big.Int).Mul(big.NewInt(m), new(big.Int).Exp(big.NewInt(10), big.NewInt(int64(e)), nil))
		v.Quo(v, big.NewInt(1000))
		if !v.IsInt64() {
			return math.MaxInt64
		}
		return v.Int64()
	}
}

func genRate(rt *rapid.T, label string) sdk.Dec {
	switch rapid.IntRange(0, 5).Draw(rt, label+"_k") {
	case 0:
		return sdk.MustNewDecFromStr(rapid.SampledFrom([]string{"0", "0.000000000000000001", "0.01", "0.015", "0.1", "0.25", "1", "9.999999999999999999", "10"}).Draw(rt, label+"_c"))
	case 1: // tiny
		return sdk.NewDecWithPrec(rapid.Int64Range(0, 1000000000000).Draw(rt, label+"_t"), 18)
	case 2: // large
		return sdk.NewDecWithPrec(rapid.Int64Range(1000000000000000000, 9223372036854775807).Draw(rt, label+"_l"), 18).Add(sdk.NewDec(rapid.Int64Range(0, 0).Draw(rt, label+"_z")))
	default: // typical 0..50%
		return sdk.NewDecWithPrec(rapid.Int64Range(0, 500000000000000000).Draw(rt, label+"_n"), 18)
	}
}

func genSeconds(rt *rapid.T, label string) int64 {
	switch rapid.IntRange(0, 6).Draw(rt, label+"_k") {
	case 0:
		return rapid.SampledFrom([]int64{0, 1, 5, 6, 60, 3600, 86400, c18Year - 1, c18Year, c18Year + 1, 50 * c18Year}).Draw(rt, label+"_c")
	case 1:
		return rapid.Int64Range(0, 100).Draw(rt, label+"_s")
	case 2:
		return rapid.Int64Range(0, 50*c18Year).Draw(rt, label+"_l")
	default:
		return rapid.Int64Range(0, 3*c18Year).Draw(rt, label+"_m")
	}
}

// ---- float path: x/rewards CalculationOfRewards (vault stability fee, locker savings) ----

type c18RewardsCase struct {
	P1, P2 int64
	R1, R2 string
	T1, T2 int64
}

func c18F(p int64, r sdk.Dec, secs int64) (sdk.Dec, error) {
	ctx := c18Chain.Ctx.WithBlockTime(c18T0.Add(time.Duration(secs) * time.Second))
	return c18Chain.App.Rewardskeeper.CalculationOfRewards(ctx, sdk.NewInt(p), r, c18T0.Unix())
}

// floatEnvelope bounds the absolute error float64 arithmetic can introduce in
// P*((1+r)^y-1): unit round-off amplified by the exponent's own rounding.
func floatEnvelope(p int64, r sdk.Dec, secs int64) *big.Rat {
	y := float64(secs) / c18Year
	base := 1 + r.MustFloat64()
	pw := math.Pow(base, y)
	e := float64(p) * pw * math.Pow(2, -52) * (4 + 2*y*math.Log(base) + 2*y) * 4
	if math.IsInf(e, 0) || math.IsNaN(e) {
		e = math.MaxFloat64 / 4
	}
	out, _ := new(big.Rat).SetString(fmt.Sprintf("%.6e", e))
	if out == nil {
		out = new(big.Rat)
	}
	return out.Add(out, big.NewRat(1, 100000000000000000))
}

func c18RunRewards(t rec.TB, r *rec.Rec, c c18RewardsCase) {
	c18Setup()
	r.Eval()
	r1, r2 := sdk.MustNewDecFromStr(c.R1), sdk.MustNewDecFromStr(c.R2)
	if r2.LT(r1) {
		r1, r2 = r2, r1
	}
	p1, p2 := c.P1, c.P2
	if p2 < p1 {
		p1, p2 = p2, p1
	}
	t1, t2 := c.T1, c.T2
	type ev struct {
		v   sdk.Dec
		err error
	}
	f := func(p int64, rr sdk.Dec, s int64) ev {
		var out ev
		func() {
			defer func() {
				if x := recover(); x != nil {
					r.Fail(t, "C18.no-panic", "rewards", c, "CalculationOfRewards(%d,%s,%ds) panicked: %v", p, rr, s, x)
				}
			}()
			out.v, out.err = c18F(p, rr, s)
		}()
		return out
	}
	// relation helper: a <= b (+tol); classify an excess inside the float envelope
	leq := func(assertion, what string, a, b sdk.Dec, tol *big.Rat, env *big.Rat) {
		d := new(big.Rat).Sub(decRat(a), decRat(b))
		if d.Cmp(tol) <= 0 {
			return
		}
		ctx := "beyond-float-envelope"
		if d.Cmp(new(big.Rat).Add(tol, env)) <= 0 {
			ctx = "float-rounding-envelope"
		}
		r.Fail(t, assertion, ctx, c, "%s: %s exceeds %s by %s (decimal tolerance %s, float envelope %s)", what, a, b, d.FloatString(20), tol.FloatString(20), env.FloatString(6))
	}
	zeroTol := new(big.Rat)
	base := f(p2, r2, t1+t2)
	if base.err != nil {
		r.Class("rewards-overflow-error")
		return
	}
	// non-negative and zero over zero time
	for _, e := range []struct {
		p int64
		r sdk.Dec
		s int64
	}{{p1, r1, t1}, {p2, r2, t2}, {p2, r2, t1 + t2}} {
		x := f(e.p, e.r, e.s)
		if x.err == nil && x.v.IsNegative() {
			r.Fail(t, "C18.non-negative", "rewards", c, "f(%d,%s,%ds) = %s", e.p, e.r, e.s, x.v)
		}
	}
	z := f(p2, r2, 0)
	if z.err != nil || !z.v.IsZero() {
		r.Fail(t, "C18.zero-over-zero-time", "rewards", c, "f(%d,%s,0s) = %s err=%v", p2, r2, z.v, z.err)
	}
	envAll := floatEnvelope(p2, r2, t1+t2)
	envAll.Mul(envAll, big.NewRat(3, 1))
	// monotone in time, principal, rate
	tl, th := t1, t1+t2
	a, b := f(p2, r2, tl), f(p2, r2, th)
	if a.err == nil && b.err == nil {
		leq("C18.monotone-in-time", fmt.Sprintf("f(t=%d) vs f(t=%d)", tl, th), a.v, b.v, zeroTol, envAll)
	}
	a, b = f(p1, r2, th), f(p2, r2, th)
	if a.err == nil && b.err == nil {
		leq("C18.monotone-in-principal", fmt.Sprintf("f(P=%d) vs f(P=%d)", p1, p2), a.v, b.v, zeroTol, envAll)
	}
	a, b = f(p2, r1, th), f(p2, r2, th)
	if a.err == nil && b.err == nil {
		leq("C18.monotone-in-rate", fmt.Sprintf("f(r=%s) vs f(r=%s)", r1, r2), a.v, b.v, zeroTol, envAll)
	}
	// sub-additivity on the same principal
	x1, x2 := f(p2, r2, t1), f(p2, r2, t2)
	if x1.err == nil && x2.err == nil {
		tol := new(big.Rat).Mul(new(big.Rat).SetInt64(p2), big.NewRat(3, 1000000000000000000))
		tol.Add(tol, big.NewRat(3, 1000000000000000000))
		leq("C18.sub-additive", fmt.Sprintf("f(%ds)+f(%ds) vs f(%ds)", t1, t2, t1+t2), x1.v.Add(x2.v), base.v, tol, envAll)
	}
	if p2 >= 1000000 && r2.IsPositive() && t1 > 0 && t2 > 0 && t1 != t2 {
		r.NonTrivial(c)
	}
}

func TestC18_rewards(t *testing.T) {
	r := rec.New("C18", "rewards")
	t.Cleanup(r.Flush)
	rapid.Check(t, func(rt *rapid.T) {
		c := c18RewardsCase{P1: genPrincipal(rt, "p1"), P2: genPrincipal(rt, "p2"), R1: genRate(rt, "r1").String(), R2: genRate(rt, "r2").String(), T1: genSeconds(rt, "t1"), T2: genSeconds(rt, "t2")}
		r.Guard(func() { c18RunRewards(rt, r, c) })
	})
}

// ---- decimal paths: x/lend CalculateLendReward / CalculateBorrowInterest / CalculateStableInterest ----

type c18LendCase struct {
	Kind        string // lend | borrow | stable
	A1, A2      string // amounts (decimal strings, A2 >= A1)
	R1, R2      string
	RR          string // reserve rate (borrow)
	T1, T2      int64
	Index, RIdx string
}

func c18LendF(kind string, amt string, rate, rrate sdk.Dec, from, to int64, idx, ridx sdk.Dec) (val, nidx, rval, nridx sdk.Dec, err error) {
	k := c18Chain.App.LendKeeper
	ctx := c18Chain.Ctx.WithBlockTime(c18T0.Add(time.Duration(to) * time.Second))
	last := c18T0.Add(time.Duration(from) * time.Second)
	switch kind {
	case "lend":
		val, nidx, err = k.CalculateLendReward(ctx, amt, rate, lendtypes.LendAsset{LastInteractionTime: last, GlobalIndex: idx})
	case "borrow":
		val, nidx, rval, nridx, err = k.CalculateBorrowInterest(ctx, amt, rate, rrate, lendtypes.BorrowAsset{LastInteractionTime: last, GlobalIndex: idx, ReserveGlobalIndex: ridx})
	case "stable":
		val, err = k.CalculateStableInterest(ctx, amt, lendtypes.BorrowAsset{LastInteractionTime: last, StableBorrowRate: rate})
		nidx = idx
	}
	return
}

func c18RunLend(t rec.TB, r *rec.Rec, c c18LendCase) {
	c18Setup()
	r.Eval()
	a1, a2 := sdk.MustNewDecFromStr(c.A1), sdk.MustNewDecFromStr(c.A2)
	if a2.LT(a1) {
		a1, a2 = a2, a1
	}
	r1, r2 := sdk.MustNewDecFromStr(c.R1), sdk.MustNewDecFromStr(c.R2)
	if r2.LT(r1) {
		r1, r2 = r2, r1
	}
	rr := sdk.MustNewDecFromStr(c.RR)
	idx, ridx := sdk.MustNewDecFromStr(c.Index), sdk.MustNewDecFromStr(c.RIdx)
	ctxs := c.Kind
	// tolerance of one evaluation: the 18-decimal factor (years rounded, times rate, index
	// multiply and divide) scaled by the principal: amt*(rate+3)*1e-18 + 1e-18
	evalTol := func(a, rate sdk.Dec) *big.Rat {
		x := new(big.Rat).Mul(decRat(a), new(big.Rat).Add(decRat(rate), big.NewRat(3, 1)))
		x.Mul(x, big.NewRat(1, 1000000000000000000))
		return x.Add(x, big.NewRat(1, 1000000000000000000))
	}
	f := func(a sdk.Dec, rate sdk.Dec, from, to int64, i, ri sdk.Dec) (sdk.Dec, sdk.Dec, sdk.Dec, sdk.Dec) {
		var v, ni, rv, nri sdk.Dec
		var err error
		func() {
			defer func() {
				if x := recover(); x != nil {
					r.Fail(t, "C18.no-panic", ctxs, c, "%s accrual panicked: %v", c.Kind, x)
				}
			}()
			v, ni, rv, nri, err = c18LendF(c.Kind, a.String(), rate, rr, from, to, i, ri)
		}()
		if err != nil {
			r.Fail(t, "C18.no-error", ctxs, c, "%s accrual failed: %v", c.Kind, err)
		}
		return v, ni, rv, nri
	}
	leq := func(assertion, what string, a, b sdk.Dec, tol *big.Rat) {
		if new(big.Rat).Sub(decRat(a), decRat(b)).Cmp(tol) > 0 {
			r.Fail(t, assertion, ctxs, c, "%s: %s > %s (tolerance %s)", what, a, b, tol.FloatString(22))
		}
	}
	t1, t2 := c.T1, c.T2
	full, _, fullR, _ := f(a2, r2, 0, t1+t2, idx, ridx)
	if full.IsNegative() || (c.Kind == "borrow" && fullR.IsNegative()) {
		r.Fail(t, "C18.non-negative", ctxs, c, "accrual %s / reserve %s", full, fullR)
	}
	z, _, zr, _ := f(a2, r2, 5, 5, idx, ridx)
	if !z.IsZero() || (c.Kind == "borrow" && !zr.IsZero()) {
		r.Fail(t, "C18.zero-over-zero-time", ctxs, c, "accrual over zero seconds = %s / %s", z, zr)
	}
	tolA := evalTol(a2, r2)
	tol2 := new(big.Rat).Mul(tolA, big.NewRat(2, 1))
	part, nidx, partR, nridx := f(a2, r2, 0, t1, idx, ridx)
	leq("C18.monotone-in-time", "shorter interval vs longer", part, full, tol2)
	lowP, _, _, _ := f(a1, r2, 0, t1+t2, idx, ridx)
	leq("C18.monotone-in-principal", "smaller principal vs larger", lowP, full, tol2)
	lowR, _, _, _ := f(a2, r1, 0, t1+t2, idx, ridx)
	leq("C18.monotone-in-rate", "lower rate vs higher", lowR, full, tol2)
	// two consecutive intervals on the same principal, index carried over as the keeper does
	second, _, secondR, _ := f(a2, r2, t1, t1+t2, nidx, nridx)
	tol3 := new(big.Rat).Mul(tolA, big.NewRat(3, 1))
	leq("C18.sub-additive", "two consecutive accruals vs one", part.Add(second), full, tol3)
	if c.Kind == "borrow" {
		tolR := new(big.Rat).Mul(evalTol(a2, rr), big.NewRat(3, 1))
		leq("C18.sub-additive", "reserve share: two consecutive accruals vs one", partR.Add(secondR), fullR, tolR)
	}
	if a2.GTE(sdk.NewDec(1000000)) && r2.IsPositive() && t1 > 0 && t2 > 0 && t1 != t2 {
		r.NonTrivial(c)
	}
}

func TestC18_lend(t *testing.T) {
	r := rec.New("C18", "lend")
	t.Cleanup(r.Flush)
	rapid.Check(t, func(rt *rapid.T) {
		genIdx := func(l string) string {
			switch rapid.IntRange(0, 3).Draw(rt, l+"_k") {
			case 0:
				return "1.000000000000000000"
			case 1:
				return sdk.NewDecWithPrec(rapid.Int64Range(1000000000000000000, 3000000000000000000).Draw(rt, l+"_n"), 18).String()
			default:
				return sdk.NewDecWithPrec(rapid.Int64Range(1000000000000000000, 1000000100000000000).Draw(rt, l+"_c"), 18).String()
			}
		}
		genAmt := func(l string) string {
			p := genPrincipal(rt, l)
			frac := rapid.SampledFrom([]int64{0, 0, 1, 500000000000000000, 999999999999999999}).Draw(rt, l+"_f")
			return sdk.NewDec(p).Add(sdk.NewDecWithPrec(frac, 18)).String()
		}
		c := c18LendCase{Kind: rapid.SampledFrom([]string{"lend", "borrow", "stable"}).Draw(rt, "kind"),
			A1: genAmt("a1"), A2: genAmt("a2"), R1: genRate(rt, "r1").String(), R2: genRate(rt, "r2").String(), RR: genRate(rt, "rr").String(),
			T1: genSeconds(rt, "t1"), T2: genSeconds(rt, "t2"), Index: genIdx("idx"), RIdx: genIdx("ridx")}
		r.Class(c.Kind)
		r.Guard(func() { c18RunLend(rt, r, c) })
	})
}

// ---- rate model: GetBorrowAPRByAssetID / GetLendAPRByAssetIDAndPoolID ----

type c18RateCase struct {
	UOpt, Base, S1, S2, SBase, SS1, SS2, RF string
	Total                                   int64 // cash + borrowed, constant across the two states
	B1, B2                                  int64 // borrowed (variable+stable) in the two states, B1 <= B2 <= Total
	StableShare                             int64 // per-mille of borrowed that is stable
}

func c18Rates(c c18RateCase, borrowed int64) (u, apr, sapr, lapr sdk.Dec, err error) {
	k := c18Chain.App.LendKeeper
	ctx, _ := c18Chain.Ctx.CacheContext()
	k.SetPool(ctx, lendtypes.Pool{PoolID: 1, ModuleName: "cmdx", CPoolName: "CMDX"})
	k.SetAssetRatesParams(ctx, lendtypes.AssetRatesParams{AssetID: c18Asset, UOptimal: sdk.MustNewDecFromStr(c.UOpt), Base: sdk.MustNewDecFromStr(c.Base),
		Slope1: sdk.MustNewDecFromStr(c.S1), Slope2: sdk.MustNewDecFromStr(c.S2), EnableStableBorrow: true, StableBase: sdk.MustNewDecFromStr(c.SBase),
		StableSlope1: sdk.MustNewDecFromStr(c.SS1), StableSlope2: sdk.MustNewDecFromStr(c.SS2), Ltv: sdk.MustNewDecFromStr("0.7"), LiquidationThreshold: sdk.MustNewDecFromStr("0.8"),
		LiquidationPenalty: sdk.MustNewDecFromStr("0.05"), LiquidationBonus: sdk.MustNewDecFromStr("0.05"), ReserveFactor: sdk.MustNewDecFromStr(c.RF), CAssetID: 99})
	stable := borrowed / 1000 * c.StableShare
	if c.StableShare == 1000 {
		stable = borrowed
	}
	k.SetAssetStatsByPoolIDAndAssetID(ctx, lendtypes.PoolAssetLBMapping{PoolID: 1, AssetID: c18Asset, TotalBorrowed: sdk.NewInt(borrowed - stable), TotalStableBorrowed: sdk.NewInt(stable),
		TotalLend: sdk.NewInt(c.Total), TotalInterestAccumulated: sdk.ZeroInt(), LendApr: sdk.ZeroDec(), BorrowApr: sdk.ZeroDec(), StableBorrowApr: sdk.ZeroDec(), UtilisationRatio: sdk.ZeroDec()})
	cash := c.Total - borrowed
	if cash > 0 {
		tmp := *c18Chain
		tmp.Ctx = ctx
		tmp.FundModule("cmdx", sdk.NewCoins(sdk.NewInt64Coin("ucmdx", cash)))
	}
	if u, err = k.GetUtilisationRatioByPoolIDAndAssetID(ctx, 1, c18Asset); err != nil {
		return
	}
	if apr, err = k.GetBorrowAPRByAssetID(ctx, 1, c18Asset, false); err != nil {
		return
	}
	if sapr, err = k.GetBorrowAPRByAssetID(ctx, 1, c18Asset, true); err != nil {
		return
	}
	lapr, err = k.GetLendAPRByAssetIDAndPoolID(ctx, 1, c18Asset)
	return
}

var c18RateTol = big.NewRat(1, 1000000000000) // 1e-12 absolute on an annual rate

func c18RunRates(t rec.TB, r *rec.Rec, c c18RateCase) {
	c18Setup()
	r.Eval()
	var u1, a1, s1, l1, u2, a2, s2, l2 sdk.Dec
	var err1, err2 error
	func() {
		defer func() {
			if x := recover(); x != nil {
				r.Fail(t, "C18.no-panic", "rates", c, "rate model panicked: %v", x)
			}
		}()
		u1, a1, s1, l1, err1 = c18Rates(c, c.B1)
		u2, a2, s2, l2, err2 = c18Rates(c, c.B2)
	}()
	if err1 != nil || err2 != nil {
		r.Fail(t, "C18.no-error", "rates", c, "rate model failed: %v / %v", err1, err2)
	}
	uopt := sdk.MustNewDecFromStr(c.UOpt)
	base, sbase := sdk.MustNewDecFromStr(c.Base), sdk.MustNewDecFromStr(c.SBase)
	if u1.IsNegative() || u2.GT(sdk.OneDec()) || u1.GT(u2) {
		r.Fail(t, "C18.utilisation-range", "rates", c, "utilisation %s, %s for borrowed %d <= %d of %d", u1, u2, c.B1, c.B2, c.Total)
	}
	for _, x := range []struct {
		n            string
		lo, hi, zero sdk.Dec
		sl1, sl2     string
	}{{"variable", a1, a2, base, c.S1, c.S2}, {"stable", s1, s2, sbase, c.SS1, c.SS2}} {
		d := new(big.Rat).Sub(decRat(x.lo), decRat(x.hi))
		if d.Cmp(c18RateTol) > 0 {
			r.Fail(t, "C18.rate-monotone-in-utilisation", x.n, c, "%s APR fell from %s (U=%s) to %s (U=%s)", x.n, x.lo, u1, x.hi, u2)
		}
		// Lipschitz bound across the two utilisations implies continuity at the kink
		l := sdk.MaxDec(sdk.MustNewDecFromStr(x.sl1).Quo(uopt), sdk.MustNewDecFromStr(x.sl2).Quo(sdk.OneDec().Sub(uopt)))
		bound := new(big.Rat).Add(new(big.Rat).Mul(decRat(l), new(big.Rat).Sub(decRat(u2), decRat(u1))), c18RateTol)
		if new(big.Rat).Neg(d).Cmp(bound) > 0 {
			r.Fail(t, "C18.rate-continuous", x.n, c, "%s APR jumps from %s (U=%s) to %s (U=%s): more than slope %s allows", x.n, x.lo, u1, x.hi, u2, l)
		}
		if c.B1 == 0 && !x.lo.Equal(x.zero) {
			r.Fail(t, "C18.rate-base-at-zero-utilisation", x.n, c, "%s APR at zero utilisation is %s, base rate %s", x.n, x.lo, x.zero)
		}
		if x.lo.IsNegative() {
			r.Fail(t, "C18.non-negative", x.n, c, "%s APR %s", x.n, x.lo)
		}
	}
	if l1.GT(a1) || l2.GT(a2) {
		r.Fail(t, "C18.lend-rate-below-borrow-rate", "rates", c, "lend APR %s/%s above borrow APR %s/%s", l1, l2, a1, a2)
	}
	if l1.IsNegative() || l2.IsNegative() {
		r.Fail(t, "C18.non-negative", "lend-rate", c, "lend APR %s / %s", l1, l2)
	}
	straddle := u1.LT(uopt) && u2.GTE(uopt)
	if straddle {
		r.Class("straddles-kink")
	}
	if c.B1 == 0 {
		r.Class("zero-utilisation")
	}
	if c.B1 != c.B2 && c.B2 > 0 {
		r.NonTrivial(c)
	}
}

func TestC18_rates(t *testing.T) {
	r := rec.New("C18", "rates")
	t.Cleanup(r.Flush)
	rapid.Check(t, func(rt *rapid.T) {
		dec := func(l string, lo, hi int64) string {
			return sdk.NewDecWithPrec(rapid.Int64Range(lo, hi).Draw(rt, l), 18).String()
		}
		c := c18RateCase{
			UOpt: dec("uopt", 10000000000000000, 990000000000000000), // (0.01, 0.99)
			Base: dec("base", 1, 1000000000000000000), S1: dec("s1", 1, 5000000000000000000), S2: dec("s2", 1, 9000000000000000000),
			SBase: dec("sbase", 1, 1000000000000000000), SS1: dec("ss1", 1, 5000000000000000000), SS2: dec("ss2", 1, 9000000000000000000),
			RF: dec("rf", 1, 1000000000000000000), StableShare: rapid.SampledFrom([]int64{0, 0, 250, 1000}).Draw(rt, "stableshare"),
		}
		c.Total = rapid.SampledFrom([]int64{1000, 1000000, 1000000000000, 999999999989, 4000000000000000000}).Draw(rt, "total")
		uoptR := decRat(sdk.MustNewDecFromStr(c.UOpt))
		kink := new(big.Rat).Mul(uoptR, new(big.Rat).SetInt64(c.Total))
		kinkInt := new(big.Int).Quo(kink.Num(), kink.Denom()).Int64()
		switch rapid.IntRange(0, 4).Draw(rt, "placement") {
		case 0: // straddle the kink as tightly as integers allow
			c.B1, c.B2 = kinkInt-rapid.Int64Range(0, 2).Draw(rt, "d1"), kinkInt+rapid.Int64Range(0, 2).Draw(rt, "d2")
		case 1:
			c.B1, c.B2 = 0, rapid.Int64Range(0, c.Total).Draw(rt, "b2")
		case 2:
			c.B1, c.B2 = rapid.Int64Range(0, c.Total).Draw(rt, "b1"), c.Total
		default:
			c.B1, c.B2 = rapid.Int64Range(0, c.Total).Draw(rt, "b1"), rapid.Int64Range(0, c.Total).Draw(rt, "b2")
		}
		if c.B1 > c.B2 {
			c.B1, c.B2 = c.B2, c.B1
		}
		if c.B1 < 0 {
			c.B1 = 0
		}
		if c.B2 > c.Total {
			c.B2 = c.Total
		}
		r.Guard(func() { c18RunRates(rt, r, c) })
	})
}

func init() {
	replayers["C18.rewards"] = func(t *testing.T, r *rec.Rec, raw json.RawMessage) {
		var c c18RewardsCase
		_ = json.Unmarshal(raw, &c)
		c18RunRewards(t, r, c)
	}
	replayers["C18.lend"] = func(t *testing.T, r *rec.Rec, raw json.RawMessage) {
		var c c18LendCase
		_ = json.Unmarshal(raw, &c)
		c18RunLend(t, r, c)
	}
	replayers["C18.rates"] = func(t *testing.T, r *rec.Rec, raw json.RawMessage) {
		var c c18RateCase
		_ = json.Unmarshal(raw, &c)
		c18RunRates(t, r, c)
	}
}
