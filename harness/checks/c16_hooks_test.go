package checks

// C16, block hooks: from one reachable state (vault / locker / liquidation world, the same with surplus and debt
// auctions armed and left without bids, the liquidity world, the lend world with liquidation) the end-block and
// begin-block hooks are executed six times on separate branches, after a generated collateral price crash so that the
// sweeps have work to do. Every execution must leave byte-identical state. Go randomises map iteration per range
// statement and the wall clock moves between executions, so a result that depends on either differs inside one process.

import (
	"encoding/json"
	"fmt"
	"testing"
	"time"

	"pgregory.net/rapid"

	"verif/dump"
	"verif/rec"
	"verif/world"
)

type c16HCase struct {
	World string    `json:"world"`
	V     *vCase    `json:"v,omitempty"`
	E     *c11ECase `json:"english,omitempty"`
	L     *lCase    `json:"l,omitempty"`
	Ld    *ldCase   `json:"lend,omitempty"`
	Dt    int64     `json:"dt"`
	Crash []int     `json:"crash_assets,omitempty"`
	At150 bool      `json:"align_150,omitempty"`
}

func c16HooksRun(t rec.TB, r *rec.Rec, cs *c16HCase, c *world.Chain, prep func()) {
	height := int64(0)
	if cs.At150 {
		height = (c.Height/150 + 1) * 150
	}
	var first dump.State
	var base dump.State
	for k := 0; k < 6; k++ {
		ctx, err := c.HooksOnBranch(time.Duration(cs.Dt)*time.Second, height, nil, prep)
		if err != nil {
			r.Fail(t, "C16.block-hooks-panic", cs.World, cs, "execution %d: %v", k, err)
			return
		}
		st := dump.Take(c.App, ctx)
		if k == 0 {
			first = st
			base = dump.Take(c.App, c.Ctx)
			continue
		}
		if d := dump.Diff(first, st); len(d) > 0 {
			r.Fail(t, "C16.hooks-yield-identical-state", cs.World, cs, "execution %d of the same block hooks on the same state differs from execution 0: %s", k, dump.Summary(d, 6))
			return
		}
	}
	// non-trivial: the hooks changed DeFi state (not only the SDK modules' per-block bookkeeping)
	changed := 0
	for _, ch := range dump.Diff(base, first) {
		if c20Stores[ch.Store] {
			changed++
		}
	}
	r.ClassN("defi-store-keys-changed-by-the-hooks", changed)
	// how many apps had a position seized by this very sweep (ids are handed out in visiting order)
	before := map[uint64]bool{}
	for _, lv := range c.App.NewliqKeeper.GetLockedVaults(c.Ctx) {
		before[lv.LockedVaultId] = true
	}
	if ctx, err := c.HooksOnBranch(time.Duration(cs.Dt)*time.Second, height, nil, prep); err == nil {
		apps := map[uint64]bool{}
		for _, lv := range c.App.NewliqKeeper.GetLockedVaults(ctx) {
			if !before[lv.LockedVaultId] {
				apps[lv.AppId] = true
			}
		}
		if len(apps) >= 2 {
			r.Class("sweep-seized-positions-of-several-apps")
		} else if len(apps) == 1 {
			r.Class("sweep-seized-positions-of-one-app")
		}
	}
	if changed >= 3 {
		r.NonTrivialSig(rec.Sig(cs), func() interface{} {
			return map[string]interface{}{"world": cs.World, "defi_store_keys_changed": changed, "dt": cs.Dt}
		})
	}
}

func TestC16_hooks(t *testing.T) {
	r := rec.New("C16", "hooks")
	t.Cleanup(r.Flush)
	rapid.Check(t, func(rt *rapid.T) {
		r.Guard(func() {
			r.Eval()
			cs := &c16HCase{World: rapid.SampledFrom([]string{"vault", "vault", "english", "liquidity", "lend", "gauges"}).Draw(rt, "world")}
			cs.Dt = rapid.SampledFrom([]int64{5, 6, 600, 7201, 86400, 7 * 86400}).Draw(rt, "hookdt")
			cs.At150 = rapid.IntRange(0, 3).Draw(rt, "align") == 0
			crash := func(n int) {
				for ai := 0; ai < n; ai++ {
					if rapid.IntRange(0, 2).Draw(rt, fmt.Sprintf("crash%d", ai)) > 0 {
						cs.Crash = append(cs.Crash, ai)
					}
				}
			}
			switch cs.World {
			case "vault":
				vc := &vCase{Cfg: genVCfg(rt, "C13", true)}
				cs.V = vc
				if rapid.Bool().Draw(rt, "allapps") {
					// every app liquidates through dutch auctions: one sweep then seizes positions of several apps, and the
					// ids it hands out depend on the order in which it visits them
					for i := range vc.Cfg.Liq.Apps {
						vc.Cfg.Liq.Apps[i].Whitelisted, vc.Cfg.Liq.Apps[i].Dutch = true, true
					}
					vc.Cfg.Liq.Batch = 200 // the whole vault list in one sweep
				}
				m := newVMachine(rt, r, "C16", vc)
				n := rapid.IntRange(10, 45).Draw(rt, "nops")
				for i := 0; i < n; i++ {
					op := m.genOp(rt, i)
					if op.K == "price" && op.Price < vc.Cfg.Assets[op.Asset].Price {
						op = vOp{K: "block", Dt: 5} // keep the vaults safe until the crash below, so that they fall together
					}
					vc.Ops = append(vc.Ops, op)
					m.apply(i, op)
				}
				if rapid.IntRange(0, 2).Draw(rt, "crashall") > 0 {
					for ai := 0; ai < vc.Cfg.NColl; ai++ {
						cs.Crash = append(cs.Crash, ai)
					}
				} else {
					crash(vc.Cfg.NColl)
				}
				c16HooksRun(rt, r, cs, m.c, m.c16CrashPrep(cs.Crash))
			case "english":
				ec := genC11ECase(rt)
				cs.E = ec
				e := newC11EMachine(rt, r, "C16", ec)
				n := rapid.IntRange(1, 12).Draw(rt, "nops")
				for i := 0; i < n; i++ {
					op := e.genOp(rt, i)
					if op.K == "bid" && rapid.IntRange(0, 2).Draw(rt, "nobid") > 0 {
						op = c11EOp{K: "block", Dt: 6} // leave most auctions without bids: they are restarted at their end
					}
					ec.Ops = append(ec.Ops, op)
					e.apply(i, op)
				}
				c16HooksRun(rt, r, cs, e.m.c, nil)
			case "liquidity":
				lc := &lCase{Cfg: genLCfg(rt)}
				for i := range lc.Cfg.Apps {
					// a fee-distribution token among the traded ones: the conversion of collected swap fees (every 150th block) has work to do
					lc.Cfg.Apps[i].DistrDenom = rapid.SampledFrom([]string{"", "uaaa", "ubbb", "uccc"}).Draw(rt, fmt.Sprintf("distrdenom%d", i))
				}
				cs.L = lc
				m := newLMachine(rt, r, "C16", lc)
				n := rapid.IntRange(10, 45).Draw(rt, "nops")
				for i := 0; i < n; i++ {
					op := m.genOp(rt, i)
					lc.Ops = append(lc.Ops, op)
					m.apply(i, op)
				}
				c16HooksRun(rt, r, cs, m.c, nil)
			case "gauges":
				// the incentive hook's workload: the liquidity world driven as for C19 (gauges, farmers, epochs, oracle
				// prices, several pools on a pair, swap fees collected by trades), then the hooks of a block one epoch later
				lc := &lCase{Cfg: genLCfg(rt)}
				for i := range lc.Cfg.Apps {
					lc.Cfg.Apps[i].DistrDenom = rapid.SampledFrom([]string{"", "uaaa", "ubbb", "uccc"}).Draw(rt, fmt.Sprintf("distrdenom%d", i))
				}
				cs.L = lc
				m := newLMachine(rt, r, "C19", lc)
				n := rapid.IntRange(15, 50).Draw(rt, "nops")
				for i := 0; i < n; i++ {
					op := m.genOp(rt, i)
					lc.Ops = append(lc.Ops, op)
					m.apply(i, op)
				}
				if rapid.IntRange(0, 3).Draw(rt, "sharedfees") > 0 {
					// make the swap-fee distribution among several pools of one pair do real work: more pools on a pair,
					// oracle prices for both of its tokens, and fee-distribution tokens in its collector
					j := rapid.IntRange(0, len(lc.Cfg.Pairs)-1).Draw(rt, "sfpair")
					var tail []lOp
					for k := 0; k < rapid.IntRange(1, 3).Draw(rt, "sfpools"); k++ {
						np := genLPool(rt, j, rapid.Bool().Draw(rt, fmt.Sprintf("sfranged%d", k)), fmt.Sprintf("sfnp%d", k))
						tail = append(tail, lOp{K: "newpool", New: &np, Actor: rapid.IntRange(0, lNumLP-1).Draw(rt, fmt.Sprintf("sflp%d", k))})
					}
					tail = append(tail, lOp{K: "oprice", Pair: lc.Cfg.Pairs[j].Base, Extra: rapid.SampledFrom([]int64{1000000, 2500000}).Draw(rt, "sfpb"), Buy: true},
						lOp{K: "oprice", Pair: lc.Cfg.Pairs[j].Quote, Extra: rapid.SampledFrom([]int64{1000000, 400000}).Draw(rt, "sfpq"), Buy: true},
						lOp{K: "feegift", Pair: j, Actor: rapid.IntRange(0, lNumLP-1).Draw(rt, "sfgiver"), A: rapid.SampledFrom([]string{"1000000", "999999937"}).Draw(rt, "sfamt")})
					for _, op := range tail {
						lc.Ops = append(lc.Ops, op)
						m.apply(len(lc.Ops)-1, op)
					}
				}
				if rapid.IntRange(0, 2).Draw(rt, "conversion") == 0 {
					// make the 150-block conversion of collected swap fees do real work on several pairs at once: the
					// collectors of all pairs hold a traded token that is not the distribution token, and the hooks
					// run at a height divisible by 150
					// every pair trades once first (a crossing buy and sell, then the blocks that execute the batch): the
					// conversion prices its orders from the pair's last price
					for j := range lc.Cfg.Pairs {
						for _, o := range []lOp{{K: "limit", Pair: j, Buy: true, Tick: 3, A: "1000000", Life: 3600}, {K: "limit", Pair: j, Buy: false, Tick: -3, A: "1000000", Life: 3600}} {
							lc.Ops = append(lc.Ops, o)
							m.apply(len(lc.Ops)-1, o)
						}
					}
					for k := 0; k < 4; k++ {
						o := lOp{K: "block", Dt: 5}
						lc.Ops = append(lc.Ops, o)
						m.apply(len(lc.Ops)-1, o)
					}
					for j := range lc.Cfg.Pairs {
						op := lOp{K: "feegift", Pair: j, Actor: rapid.IntRange(0, lNumLP-1).Draw(rt, fmt.Sprintf("cvgiver%d", j)),
							A: rapid.SampledFrom([]string{"1000000", "7777777"}).Draw(rt, fmt.Sprintf("cvamt%d", j)),
							B: lc.Cfg.Denoms[rapid.SampledFrom([]int{lc.Cfg.Pairs[j].Base, lc.Cfg.Pairs[j].Quote}).Draw(rt, fmt.Sprintf("cvdenom%d", j))]}
						lc.Ops = append(lc.Ops, op)
						m.apply(len(lc.Ops)-1, op)
					}
					cs.At150 = true
				}
				cs.Dt = rapid.SampledFrom([]int64{86400, 86401, 7 * 86400}).Draw(rt, "epochdt")
				m.c16GaugeClasses(r)
				c16HooksRun(rt, r, cs, m.c, nil)
			default:
				lc := &ldCase{Cfg: genLdCfg(rt)}
				lc.Cfg.Liq = genLdLiq(rt)
				cs.Ld = lc
				m := newLdMachine(rt, r, "C16", lc)
				n := rapid.IntRange(10, 45).Draw(rt, "nops")
				for i := 0; i < n; i++ {
					op := m.genOp(rt, i)
					lc.Ops = append(lc.Ops, op)
					m.apply(i, op)
				}
				crash(4)
				c16HooksRun(rt, r, cs, m.c, m.c15Prep(c15Plan{Crash: cs.Crash}))
			}
		})
	})
}

func init() {
	replayers["C16.hooks"] = func(t *testing.T, r *rec.Rec, raw json.RawMessage) {
		var cs c16HCase
		if err := json.Unmarshal(raw, &cs); err != nil {
			t.Fatal(err)
		}
		r.Eval()
		switch cs.World {
		case "vault":
			m := newVMachine(t, r, "C16", cs.V)
			for i, op := range cs.V.Ops {
				m.apply(i, op)
			}
			c16HooksRun(t, r, &cs, m.c, m.c16CrashPrep(cs.Crash))
		case "english":
			e := newC11EMachine(t, r, "C16", cs.E)
			for i, op := range cs.E.Ops {
				e.apply(i, op)
			}
			c16HooksRun(t, r, &cs, e.m.c, nil)
		case "liquidity":
			m := newLMachine(t, r, "C16", cs.L)
			for i, op := range cs.L.Ops {
				m.apply(i, op)
			}
			c16HooksRun(t, r, &cs, m.c, nil)
		case "gauges":
			m := newLMachine(t, r, "C19", cs.L)
			for i, op := range cs.L.Ops {
				m.apply(i, op)
			}
			c16HooksRun(t, r, &cs, m.c, nil)
		default:
			m := newLdMachine(t, r, "C16", cs.Ld)
			for i, op := range cs.Ld.Ops {
				m.apply(i, op)
			}
			c16HooksRun(t, r, &cs, m.c, m.c15Prep(c15Plan{Crash: cs.Crash}))
		}
	}
}

// c16CrashPrep drops the listed collateral feeds to a twentieth, so that nearly every vault on them becomes unsafe at once.
func (m *vMachine) c16CrashPrep(assets []int) func() {
	return func() {
		for _, ai := range assets {
			tw, _ := m.c.App.MarketKeeper.GetTwa(m.c.Ctx, m.cs.Cfg.Assets[ai].ID)
			m.c.SetPrice(m.cs.Cfg.Assets[ai].ID, tw.Twa/20+1, true)
		}
	}
}

// c16GaugeClasses reports whether the state handed to the hooks makes the swap-fee distribution among several pools
// of one pair do real work (what an order-dependent distribution would need to show).
func (m *lMachine) c16GaugeClasses(r *rec.Rec) {
	c := m.c
	for _, a := range m.cs.Cfg.Apps {
		params, err := m.k.GetGenericParams(c.Ctx, a.ID)
		if err != nil {
			continue
		}
		// pairs that have traded and whose fee collector holds something to convert
		nconv := 0
		for _, pair := range m.k.GetAllPairs(c.Ctx, a.ID) {
			if pair.LastPrice == nil {
				continue
			}
			for _, b := range c.App.BankKeeper.GetAllBalances(c.Ctx, pair.GetSwapFeeCollectorAddress()) {
				if b.Denom != params.SwapFeeDistrDenom && b.Amount.IsPositive() {
					nconv++
					break
				}
			}
		}
		if nconv >= 2 {
			r.Class("gauges:several-traded-pairs-with-fees-to-convert")
		}
		for _, pair := range m.k.GetAllPairs(c.Ctx, a.ID) {
			n := 0
			for _, p := range m.k.GetPoolsByPair(c.Ctx, a.ID, pair.Id) {
				if !p.Disabled {
					n++
				}
			}
			if n < 2 {
				continue
			}
			r.Class("gauges:pair-with-several-pools")
			_, qf, _ := m.k.OraclePrice(c.Ctx, pair.QuoteCoinDenom)
			_, bf, _ := m.k.OraclePrice(c.Ctx, pair.BaseCoinDenom)
			if !qf || !bf {
				continue
			}
			r.Class("gauges:pair-with-several-pools-and-oracle-prices")
			if c.Bal(pair.GetSwapFeeCollectorAddress(), params.SwapFeeDistrDenom).IsPositive() {
				r.Class("gauges:pair-with-several-pools-prices-and-collected-fees")
			}
		}
	}
}
