package checks

// C15 — block hooks never halt the chain and never leave half-applied steps.
//
// faults: a generated history yields a reachable state (vault / locker /
// liquidation / auction world or liquidity world); on throw-away branches of
// it the end-block hooks of the open block and the begin-block hooks of the
// next block are run (a) unfaulted, recording every store access and the
// nesting of ApplyFuncIfNoError steps (verif-tag hook in types/utils.go), (b)
// once per step with a failure injected at the step's entry, (c) with a panic
// injected at an individual store access inside a step (a gas meter that
// panics at the k-th flat access; the meter is the only thing every store
// access of a hook goes through). Oracle: no panic escapes; the full state
// after (c) is byte-identical to the state after (b) for the innermost step
// containing the access (all-or-nothing: failing anywhere == not running at
// all); the sibling steps of the same loop are still entered.
//
// env: environment faults generated on the branch before the hooks run
// (feeds inactive or zero, module accounts drained, parameters removed,
// vault counter out of step with the stored list): no panic may escape.

import (
	"encoding/json"
	"fmt"
	"runtime"
	"sort"
	"strings"
	"testing"
	"time"

	storetypes "github.com/cosmos/cosmos-sdk/store/types"
	sdk "github.com/cosmos/cosmos-sdk/types"
	"pgregory.net/rapid"

	utils "github.com/comdex-official/comdex/types"

	"verif/dump"
	"verif/rec"
	"verif/world"
)

type c15Access struct {
	K     int  // ordinal of the flat access in the run
	Step  int  // innermost step ordinal
	Write bool // a write or delete
}

type c15Step struct {
	Ord    int
	Parent int // enclosing step ordinal, 0 = none
	Loop   string
}

// faultMeter is an infinite gas meter that counts flat store accesses and can panic at one of them.
type faultMeter struct {
	n        int
	stack    []int
	steps    []c15Step
	accesses []c15Access
	armK     int // panic at this access ordinal (0: never)
	armStep  int // panic at the entry of this step ordinal (0: never)
	fired    bool
	consumed storetypes.Gas
}

func (m *faultMeter) GasConsumed() storetypes.Gas        { return m.consumed }
func (m *faultMeter) GasConsumedToLimit() storetypes.Gas { return m.consumed }
func (m *faultMeter) GasRemaining() storetypes.Gas       { return ^storetypes.Gas(0) - m.consumed }
func (m *faultMeter) Limit() storetypes.Gas              { return ^storetypes.Gas(0) }
func (m *faultMeter) RefundGas(storetypes.Gas, string)   {}
func (m *faultMeter) IsPastLimit() bool                  { return false }
func (m *faultMeter) IsOutOfGas() bool                   { return false }
func (m *faultMeter) String() string                     { return "faultMeter" }
func (m *faultMeter) ConsumeGas(amount storetypes.Gas, desc string) {
	m.consumed += amount
	switch desc {
	case storetypes.GasReadCostFlatDesc, storetypes.GasWriteCostFlatDesc, storetypes.GasIterNextCostFlatDesc, storetypes.GasDeleteDesc, storetypes.GasHasDesc:
	default:
		return
	}
	m.n++
	if len(m.stack) == 0 {
		return
	}
	m.accesses = append(m.accesses, c15Access{K: m.n, Step: m.stack[len(m.stack)-1], Write: desc == storetypes.GasWriteCostFlatDesc || desc == storetypes.GasDeleteDesc})
	if m.n == m.armK && !m.fired {
		m.fired = true
		panic(fmt.Sprintf("verif: injected panic at store access %d (%s)", m.n, desc))
	}
}

func (m *faultMeter) enter() {
	ord := len(m.steps) + 1
	parent := 0
	if len(m.stack) > 0 {
		parent = m.stack[len(m.stack)-1]
	}
	// the function that contains the loop: first frame above ApplyFuncIfNoError
	pcs := make([]uintptr, 12)
	n := runtime.Callers(2, pcs)
	frames := runtime.CallersFrames(pcs[:n])
	loop, next := "?", false
	for {
		f, more := frames.Next()
		if next {
			loop = f.Function
			break
		}
		if strings.HasSuffix(f.Function, "types.ApplyFuncIfNoError") {
			next = true
		}
		if !more {
			break
		}
	}
	m.steps = append(m.steps, c15Step{Ord: ord, Parent: parent, Loop: loop})
	m.stack = append(m.stack, ord)
	if ord == m.armStep && !m.fired {
		m.fired = true
		panic(fmt.Sprintf("verif: injected failure at the entry of step %d", ord))
	}
}

func (m *faultMeter) exit() {
	if len(m.stack) > 0 {
		m.stack = m.stack[:len(m.stack)-1]
	}
}

// siblings counts, per (loop function, parent step), the steps entered.
func (m *faultMeter) siblings() map[string]int {
	out := map[string]int{}
	for _, s := range m.steps {
		out[fmt.Sprintf("%s under step %d", s.Loop, s.Parent)]++
	}
	return out
}

type c15Run struct {
	meter *faultMeter
	state dump.State
	err   error
}

type c15Plan struct {
	Dt       int64 `json:"dt"`
	Align150 bool  `json:"align_150,omitempty"` // run the begin-block hooks at the next height divisible by 150 (swap-fee conversion)
	Crash    []int `json:"crash_assets,omitempty"`
	Faults   []int `json:"fault_accesses"` // access ordinals to inject at (0-based indices into the in-step access list are resolved at run time)
	Picks    []int `json:"picks"`          // generated indices (mod number of in-step accesses)
}

type c15Case struct {
	World string  `json:"world"`
	V     *vCase  `json:"v,omitempty"`
	L     *lCase  `json:"l,omitempty"`
	Ld    *ldCase `json:"lend,omitempty"`
	Plan  c15Plan `json:"plan"`
}

func c15Hooks(c *world.Chain, plan c15Plan, prep func(), armK, armStep int) *c15Run {
	fm := &faultMeter{armK: armK, armStep: armStep}
	utils.VerifStepEnter, utils.VerifStepExit = fm.enter, fm.exit
	defer func() { utils.VerifStepEnter, utils.VerifStepExit = nil, nil }()
	height := int64(0)
	if plan.Align150 {
		height = (c.Height/150 + 1) * 150
	}
	ctx, err := c.HooksOnBranch(time.Duration(plan.Dt)*time.Second, height, fm, prep)
	run := &c15Run{meter: fm, err: err}
	if err == nil {
		run.state = dump.Take(c.App, ctx.WithGasMeter(sdk.NewInfiniteGasMeter()))
	}
	return run
}

func c15Faults(t rec.TB, r *rec.Rec, cs *c15Case, c *world.Chain, prep func()) {
	plan := cs.Plan
	full := c15Hooks(c, plan, prep, 0, 0)
	if full.err != nil {
		r.Fail(t, "C15.block-hooks-panic", cs.World, cs, "unfaulted hooks: %v", full.err)
		return
	}
	acc := full.meter.accesses
	r.ClassN("steps-per-hook-run", len(full.meter.steps))
	if len(acc) == 0 {
		r.Class("no-in-step-access")
		return
	}
	firstWrite := map[int]int{}
	for _, a := range acc {
		if a.Write {
			if _, ok := firstWrite[a.Step]; !ok {
				firstWrite[a.Step] = a.K
			}
		}
	}
	refs := map[int]*c15Run{}
	ref := func(step int) *c15Run {
		if x, ok := refs[step]; ok {
			return x
		}
		x := c15Hooks(c, plan, prep, 0, step)
		refs[step] = x
		return x
	}
	fullSib := full.meter.siblings()
	// candidates: every access after the first write of its step, then the rest; the generated picks choose among them
	var late, early []c15Access
	for _, a := range acc {
		if fw, ok := firstWrite[a.Step]; ok && a.K > fw {
			late = append(late, a)
		} else {
			early = append(early, a)
		}
	}
	for i, pk := range plan.Picks {
		pool := late
		if len(pool) == 0 || i%4 == 3 {
			pool = early
		}
		if len(pool) == 0 {
			continue
		}
		// stratified: first a loop (so that rarely entered loops get their share), then an access inside it
		byLoop := map[string][]c15Access{}
		var loops []string
		for _, a := range pool {
			l := full.meter.steps[a.Step-1].Loop
			if _, ok := byLoop[l]; !ok {
				loops = append(loops, l)
			}
			byLoop[l] = append(byLoop[l], a)
		}
		sort.Strings(loops)
		sub := byLoop[loops[pk%len(loops)]]
		a := sub[(pk/1024)%len(sub)]
		step := full.meter.steps[a.Step-1]
		ctxs := step.Loop
		if j := strings.LastIndex(ctxs, "/"); j >= 0 {
			ctxs = ctxs[j+1:]
		}
		run := c15Hooks(c, plan, prep, a.K, 0)
		if run.err != nil {
			r.Fail(t, "C15.injected-step-failure-halts-the-chain", ctxs, cs, "panic injected at store access %d (inside step %d of %s): %v", a.K, a.Step, step.Loop, run.err)
			continue
		}
		if !run.meter.fired {
			r.Class("fault-not-reached") // a nondeterministic access count would land here
			continue
		}
		rf := ref(a.Step)
		if rf.err != nil {
			r.Fail(t, "C15.injected-step-failure-halts-the-chain", ctxs, cs, "failure injected at the entry of step %d of %s: %v", a.Step, step.Loop, rf.err)
			continue
		}
		if d := dump.Diff(rf.state, run.state); len(d) > 0 {
			r.Fail(t, "C15.failed-step-leaves-partial-writes", ctxs, cs, "panic at store access %d inside step %d (%s; first write of the step at access %d): state differs from the run in which the step fails at entry: %s",
				a.K, a.Step, step.Loop, firstWrite[a.Step], dump.Summary(d, 6))
		}
		for k, n := range fullSib {
			if strings.HasPrefix(k, step.Loop+" under step ") && k == fmt.Sprintf("%s under step %d", step.Loop, step.Parent) {
				if got := run.meter.siblings()[k]; got < n {
					r.Fail(t, "C15.remaining-units-not-processed", ctxs, cs, "panic inside step %d: loop %s entered %d steps, %d without the fault", a.Step, k, got, n)
				}
			}
		}
		changes := len(dump.Diff(rf.state, full.state)) > 0
		if fw, ok := firstWrite[a.Step]; ok && a.K > fw && changes {
			r.NonTrivialSig(rec.Sig([]interface{}{cs.World, cs.V, cs.L, plan.Dt, plan.Align150, plan.Crash, a.K}), func() interface{} {
				return map[string]interface{}{"world": cs.World, "loop": step.Loop, "step": a.Step, "access": a.K, "first_write_of_step": fw, "steps_in_run": len(full.meter.steps), "in_step_accesses": len(acc)}
			})
			r.Class("fault-after-first-write:" + ctxs)
		} else {
			r.Class("fault-before-any-write:" + ctxs)
		}
	}
}

func (m *vMachine) c15Prep(plan c15Plan) func() {
	return func() {
		for _, ai := range plan.Crash {
			tw, _ := m.c.App.MarketKeeper.GetTwa(m.c.Ctx, m.cs.Cfg.Assets[ai].ID)
			m.c.SetPrice(m.cs.Cfg.Assets[ai].ID, tw.Twa*3/10+1, tw.IsPriceActive)
		}
	}
}

func (m *ldMachine) c15Prep(plan c15Plan) func() {
	return func() {
		for _, ai := range plan.Crash {
			a := m.cs.Cfg.Assets[ai]
			tw, _ := m.c.App.MarketKeeper.GetTwa(m.c.Ctx, a.ID)
			m.c.SetPrice(a.ID, tw.Twa*3/10+1, true)
			m.c.SetPrice(a.CID, tw.Twa*3/10+1, true)
		}
	}
}

func c15GenPlan(rt *rapid.T, ncoll int) c15Plan {
	p := c15Plan{Dt: rapid.SampledFrom([]int64{5, 6, 600, 3600, 86400, 7 * 86400}).Draw(rt, "hookdt"), Align150: rapid.IntRange(0, 3).Draw(rt, "align") == 0}
	for ai := 0; ai < ncoll; ai++ {
		if rapid.IntRange(0, 2).Draw(rt, fmt.Sprintf("crash%d", ai)) > 0 {
			p.Crash = append(p.Crash, ai)
		}
	}
	n := rapid.IntRange(8, 24).Draw(rt, "nfaults")
	for i := 0; i < n; i++ {
		p.Picks = append(p.Picks, rapid.IntRange(0, 1<<20).Draw(rt, "pick"))
	}
	return p
}

func TestC15_faults(t *testing.T) {
	r := rec.New("C15", "faults")
	t.Cleanup(r.Flush)
	rapid.Check(t, func(rt *rapid.T) {
		r.Guard(func() {
			r.Eval()
			cs := &c15Case{World: rapid.SampledFrom([]string{"vault", "vault", "liquidity", "lend"}).Draw(rt, "world")}
			if cs.World == "lend" {
				lc := &ldCase{Cfg: genLdCfg(rt)}
				lc.Cfg.Liq = genLdLiq(rt)
				cs.Ld = lc
				m := newLdMachine(rt, r, "C15", lc)
				n := rapid.IntRange(10, 45).Draw(rt, "nops")
				for i := 0; i < n; i++ {
					op := m.genOp(rt, i)
					lc.Ops = append(lc.Ops, op)
					m.apply(i, op)
				}
				cs.Plan = c15GenPlan(rt, 4)
				c15Faults(rt, r, cs, m.c, m.c15Prep(cs.Plan))
			} else if cs.World == "vault" {
				vc := &vCase{Cfg: genVCfg(rt, "C13", true)}
				cs.V = vc
				m := newVMachine(rt, r, "C15", vc)
				n := rapid.IntRange(10, 45).Draw(rt, "nops")
				for i := 0; i < n; i++ {
					op := m.genOp(rt, i)
					vc.Ops = append(vc.Ops, op)
					m.apply(i, op)
				}
				cs.Plan = c15GenPlan(rt, vc.Cfg.NColl)
				c15Faults(rt, r, cs, m.c, m.c15Prep(cs.Plan))
			} else {
				lc := &lCase{Cfg: genLCfg(rt)}
				for i := range lc.Cfg.Apps {
					// a fee-distribution token among the traded ones: the conversion of collected swap fees (every 150th block) has work to do
					lc.Cfg.Apps[i].DistrDenom = rapid.SampledFrom([]string{"", "uaaa", "ubbb", "uccc"}).Draw(rt, fmt.Sprintf("distrdenom%d", i))
				}
				cs.L = lc
				m := newLMachine(rt, r, "C15", lc)
				n := rapid.IntRange(10, 45).Draw(rt, "nops")
				for i := 0; i < n; i++ {
					op := m.genOp(rt, i)
					lc.Ops = append(lc.Ops, op)
					m.apply(i, op)
				}
				cs.Plan = c15GenPlan(rt, 0)
				c15Faults(rt, r, cs, m.c, nil)
			}
		})
	})
}

func init() {
	replayers["C15.faults"] = func(t *testing.T, r *rec.Rec, raw json.RawMessage) {
		var cs c15Case
		if err := json.Unmarshal(raw, &cs); err != nil {
			t.Fatal(err)
		}
		r.Eval()
		if cs.World == "lend" {
			m := newLdMachine(t, r, "C15", cs.Ld)
			for i, op := range cs.Ld.Ops {
				m.apply(i, op)
			}
			c15Faults(t, r, &cs, m.c, m.c15Prep(cs.Plan))
		} else if cs.World == "vault" {
			m := newVMachine(t, r, "C15", cs.V)
			for i, op := range cs.V.Ops {
				m.apply(i, op)
			}
			c15Faults(t, r, &cs, m.c, m.c15Prep(cs.Plan))
		} else {
			m := newLMachine(t, r, "C15", cs.L)
			for i, op := range cs.L.Ops {
				m.apply(i, op)
			}
			c15Faults(t, r, &cs, m.c, nil)
		}
	}
}
