package checks

// C19, external reward programs: the rewards custody account holds at least the
// undistributed remainder of every active external reward program (lockers and
// vaults), and a program never pays more than was deposited for it. Driven on
// the vault / locker world: programs are activated in the middle of generated
// histories, several in one denomination, and day-long blocks run their daily
// distribution among lockers and vaults that accrue savings and interest.

import (
	"encoding/json"
	"fmt"
	"testing"

	sdk "github.com/cosmos/cosmos-sdk/types"
	authtypes "github.com/cosmos/cosmos-sdk/x/auth/types"
	"pgregory.net/rapid"

	rewardstypes "github.com/comdex-official/comdex/x/rewards/types"

	"verif/rec"
)

func rewardsModAddr() sdk.AccAddress { return authtypes.NewModuleAddress(rewardstypes.ModuleName) }

// c19XGenOp generates the operations only this sub has: program activations and day-long blocks.
func (m *vMachine) c19XGenOp(rt *rapid.T, i int, k string) vOp {
	cfg := &m.cs.Cfg
	lbl := func(s string) string { return fmt.Sprintf("%s_%d", s, i) }
	op := vOp{K: k, U: rapid.IntRange(0, cfg.NUsers-1).Draw(rt, lbl("user"))}
	switch k {
	case "day":
		return vOp{K: "block", Dt: rapid.SampledFrom([]int64{86400, 86401, 86401, 90000, 3 * 86400}).Draw(rt, lbl("dt"))}
	case "xlocker":
		if len(cfg.Lockers) == 0 {
			return vOp{K: "block", Dt: 86401}
		}
		op.L = rapid.IntRange(0, len(cfg.Lockers)-1).Draw(rt, lbl("locker"))
	case "xvault":
		op.P = 0 // the only product of the first app (see c19XCfg); now and then another one, which the module refuses
		if rapid.IntRange(0, 4).Draw(rt, lbl("otherproduct")) == 0 {
			op.P = rapid.IntRange(0, len(cfg.Products)-1).Draw(rt, lbl("product"))
		}
	}
	// the reward token: few denominations, so that several programs share one
	op.Asset = rapid.IntRange(0, 1).Draw(rt, lbl("denom")) % len(cfg.Assets)
	op.A = rapid.SampledFrom([]string{"1000", "999999", "1000000", "123456789"}).Draw(rt, lbl("total"))
	op.Dt = rapid.SampledFrom([]int64{1, 2, 3, 7}).Draw(rt, lbl("days"))
	op.B = rapid.SampledFrom([]string{"1", "3600", "200000"}).Draw(rt, lbl("minlock"))
	return op
}

func (m *vMachine) c19XApply(i int, op vOp) {
	c, cfg := m.c, &m.cs.Cfg
	from := c.Accs[op.U].Addr
	total := sdk.NewCoin(cfg.Assets[op.Asset].Denom, mustInt(op.A))
	minLock := mustInt(op.B).Int64()
	var msg sdk.Msg
	switch op.K {
	case "xlocker":
		lc := cfg.Lockers[op.L]
		msg = rewardstypes.NewMsgActivateExternalRewardsLockers(m.apps[lc.App], cfg.Assets[lc.Asset].ID, total, op.Dt, minLock, from)
	case "xvault":
		p := m.product(op.P)
		msg = rewardstypes.NewMsgActivateExternalRewardsVault(m.apps[p.App], p.ID, total, op.Dt, minLock, from)
	}
	if _, err := c.Deliver(msg); err == nil {
		m.okKinds[op.K]++
	} else if debugErrs {
		m.r.Class(fmt.Sprintf("err:%s:%.60v", op.K, err))
	}
}

// c19XInvariants: custody of the rewards account against the programs' undistributed remainders.
func (m *vMachine) c19XInvariants(i int, op vOp) {
	c, cfg := m.c, &m.cs.Cfg
	need := map[string]sdk.Int{}
	add := func(kind string, id uint64, active bool, total, avail sdk.Coin) {
		if avail.Amount.IsNegative() || avail.Amount.GT(total.Amount) {
			m.fail("C19.external-program-pays-within-its-deposit", kind, "step %d: %s reward program %d has %s left of a deposit of %s", i, kind, id, avail.Amount, total)
			return
		}
		if !active {
			return
		}
		if _, ok := need[avail.Denom]; !ok {
			need[avail.Denom] = sdk.ZeroInt()
		}
		need[avail.Denom] = need[avail.Denom].Add(avail.Amount)
	}
	for _, p := range c.App.Rewardskeeper.GetExternalRewardsLockers(c.Ctx) {
		add("locker", p.Id, p.IsActive, p.TotalRewards, p.AvailableRewards)
		if p.AvailableRewards.Amount.LT(p.TotalRewards.Amount) {
			m.xPaid = true
		}
	}
	for _, p := range c.App.Rewardskeeper.GetExternalRewardVaults(c.Ctx) {
		add("vault", p.Id, p.IsActive, p.TotalRewards, p.AvailableRewards)
		if p.AvailableRewards.Amount.LT(p.TotalRewards.Amount) {
			m.xPaid = true
		}
	}
	for _, a := range cfg.Assets {
		n, ok := need[a.Denom]
		if !ok {
			continue
		}
		if have := c.Bal(rewardsModAddr(), a.Denom); have.LT(n) {
			m.fail("C19.custody-covers-undistributed-remainders", "external-programs,after:"+op.K, "step %d: the rewards account holds %s%s, the active external reward programs still owe %s", i, have, a.Denom, n)
		}
	}
}

type c19XCase = vCase

func c19XCfg(rt *rapid.T) vCfg {
	cfg := genVCfg(rt, "C13", false)
	// a vault reward program can only be opened for an app all of whose products are the rewarded one: keep one
	// product on the first app and move the others to the second
	if cfg.NApps >= 2 {
		for i := range cfg.Products {
			cfg.Products[i].App = 1
		}
		cfg.Products[0].App = 0
	}
	cfg.Products[0].Stable = false
	if cfg.Products[0].Stability == "0" {
		cfg.Products[0].Stability = "0.5"
	}
	cfg.InterestOn[0] = true
	return cfg
}

func TestC19_external(t *testing.T) {
	r := rec.New("C19", "external")
	t.Cleanup(r.Flush)
	rapid.Check(t, func(rt *rapid.T) {
		r.Guard(func() {
			r.Eval()
			vc := &vCase{Cfg: c19XCfg(rt)}
			m := newVMachine(rt, r, "C19", vc)
			n := rapid.IntRange(15, 60).Draw(rt, "nops")
			for i := 0; i < n; i++ {
				op := m.genOp(rt, i)
				vc.Ops = append(vc.Ops, op)
				m.apply(i, op)
			}
			m.finish()
		})
	})
}

func init() {
	replayers["C19.external"] = func(t *testing.T, r *rec.Rec, raw json.RawMessage) {
		var cs vCase
		if err := json.Unmarshal(raw, &cs); err != nil {
			t.Fatal(err)
		}
		r.Eval()
		m := newVMachine(t, r, "C19", &cs)
		for i, op := range cs.Ops {
			m.apply(i, op)
		}
		m.finish()
	}
}
