package checks

// C14, lend handlers: a generated history on the lend world, then the circuit
// breaker of the lend app is switched on on a branch and 40 state-relative
// candidate messages run with the control off and on. Under the breaker no
// message may open, enlarge or draw from a lending or borrowing position.

import (
	"encoding/json"
	"testing"

	"pgregory.net/rapid"

	esmtypes "github.com/comdex-official/comdex/x/esm/types"

	"verif/rec"
)

type c14LendCase struct {
	Ld    *ldCase `json:"lend"`
	Cands []ldOp  `json:"candidates"`
}

// open / enlarge / draw
var c14LendRefused = map[string]bool{"lend": true, "deposit": true, "borrow": true, "borrowalt": true, "depositborrow": true, "draw": true}

func (m *ldMachine) branch(f func()) {
	save := m.c.Ctx
	cctx, _ := m.c.Ctx.CacheContext()
	m.c.Ctx = cctx
	defer func() { m.c.Ctx = save }()
	f()
}

func c14LendRun(t rec.TB, r *rec.Rec, cs *c14LendCase, m *ldMachine) {
	c := m.c
	for ci, op := range cs.Cands {
		msg, ok := m.buildMsg(op)
		if !ok || msg.ValidateBasic() != nil {
			continue
		}
		var errOff, errOn error
		m.branch(func() { _, errOff = c.Deliver(msg) })
		m.branch(func() {
			if err := c.App.EsmKeeper.SetKillSwitchData(c.Ctx, esmtypes.KillSwitchParams{AppId: m.app, BreakerEnable: true}); err != nil {
				panic(err)
			}
			_, errOn = c.Deliver(msg)
		})
		if !c14LendRefused[op.K] {
			if errOff == nil && errOn != nil {
				r.Class("also-refused-under-breaker:" + op.K)
			}
			continue
		}
		if errOff == nil {
			r.NonTrivialSig(rec.Sig([]interface{}{cs.Ld, op}), func() interface{} {
				return map[string]interface{}{"control": "breaker", "candidate": op}
			})
			r.Class("guard-decides:breaker/" + op.K)
		} else {
			r.Class("fails-anyway:breaker/" + op.K)
		}
		if errOn == nil {
			r.Fail(t, "C14.message-accepted-under-control", "breaker/"+op.K, cs, "candidate %d (%s by user %d) succeeded although the breaker of the lend app is on (without it: err=%v)", ci, op.K, op.U, errOff)
		}
	}
}

func TestC14_lend(t *testing.T) {
	r := rec.New("C14", "lend")
	t.Cleanup(r.Flush)
	rapid.Check(t, func(rt *rapid.T) {
		r.Guard(func() {
			r.Eval()
			lc := &ldCase{Cfg: genLdCfg(rt)}
			cs := &c14LendCase{Ld: lc}
			m := newLdMachine(rt, r, "C14", lc)
			n := rapid.IntRange(10, 40).Draw(rt, "nops")
			for i := 0; i < n; i++ {
				op := m.genOp(rt, i)
				lc.Ops = append(lc.Ops, op)
				m.apply(i, op)
			}
			for j := 0; len(cs.Cands) < 40 && j < 160; j++ {
				op := m.genOp(rt, 10000+j)
				switch op.K {
				case "block", "price", "fundmod", "liqmsg", "bid":
				default:
					cs.Cands = append(cs.Cands, op)
				}
			}
			c14LendRun(rt, r, cs, m)
		})
	})
}

func init() {
	replayers["C14.lend"] = func(t *testing.T, r *rec.Rec, raw json.RawMessage) {
		var cs c14LendCase
		if err := json.Unmarshal(raw, &cs); err != nil {
			t.Fatal(err)
		}
		r.Eval()
		m := newLdMachine(t, r, "C14", cs.Ld)
		for i, op := range cs.Ld.Ops {
			m.apply(i, op)
		}
		c14LendRun(t, r, &cs, m)
	}
}
