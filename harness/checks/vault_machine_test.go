package checks

// The vault world machine shared by C01, C02 and C03: generated configuration
// (apps, assets of different decimal scales, CDP products with zero / non-zero
// fees, stable-mint products), generated multi-user histories of vault
// messages interleaved with blocks, time gaps and price moves, and after every
// step the invariants of the property under test. Operations are data: a
// failing history is saved as JSON and replayed without the generator library.

import (
	"encoding/json"
	"fmt"
	"math/big"
	"os"
	"testing"
	"time"

	sdk "github.com/cosmos/cosmos-sdk/types"
	authtypes "github.com/cosmos/cosmos-sdk/x/auth/types"
	"pgregory.net/rapid"

	"github.com/comdex-official/comdex/app/wasm/bindings"
	assettypes "github.com/comdex-official/comdex/x/asset/types"
	collectortypes "github.com/comdex-official/comdex/x/collector/types"
	lockertypes "github.com/comdex-official/comdex/x/locker/types"
	vaulttypes "github.com/comdex-official/comdex/x/vault/types"

	"verif/rec"
	"verif/world"
)

var debugErrs = os.Getenv("VERIF_DEBUG_ERRS") != ""

type vAsset struct {
	Name   string `json:"name"`
	Denom  string `json:"denom"`
	DecExp int    `json:"dec_exp"`
	Price  uint64 `json:"price"`
	ID     uint64 `json:"-"`
}

type vProduct struct {
	App       int    `json:"app"` // index into apps (0-based)
	In, Out   int    // asset indices
	Stable    bool   `json:"stable"`
	DrawDown  string `json:"draw_down_fee"`
	Stability string `json:"stability_fee"`
	Closing   string `json:"closing_fee"`
	MinCr     string `json:"min_cr"`
	Floor     string `json:"debt_floor"`
	Ceiling   string `json:"debt_ceiling"`
	OutOracle bool   `json:"out_oracle"`
	OutPrice  uint64 `json:"out_price"`
	Name      string `json:"name"`
	ID        uint64 `json:"-"`
	PairID    uint64 `json:"-"`
}

type vLockerCfg struct {
	App     int    `json:"app"`
	Asset   int    `json:"asset"` // index into assets (a debt asset)
	LSR     string `json:"locker_saving_rate"`
	Rewards bool   `json:"rewards_whitelisted"`
	Seed    string `json:"seed_net_fees"` // fees paid into the collector for this (app, asset) at setup
}

type vCfg struct {
	Seed       uint64       `json:"seed"`
	NApps      int          `json:"n_apps"`
	InterestOn []bool       `json:"interest_on"` // per app: whitelisted for vault interest
	Assets     []vAsset     `json:"assets"`
	NColl      int          `json:"n_collateral"` // assets[0:NColl] are collateral, the rest debt assets
	Products   []vProduct   `json:"products"`
	NUsers     int          `json:"n_users"`
	Lockers    []vLockerCfg `json:"lockers,omitempty"`
	Liq        *vLiqCfg     `json:"liquidation,omitempty"`
}

type vOp struct {
	K      string `json:"k"`
	U      int    `json:"u,omitempty"`
	P      int    `json:"p,omitempty"`
	A      string `json:"a,omitempty"`
	B      string `json:"b,omitempty"`
	Dt     int64  `json:"dt,omitempty"`
	Asset  int    `json:"asset,omitempty"`
	Price  uint64 `json:"price,omitempty"`
	Active bool   `json:"active,omitempty"`
	L      int    `json:"l,omitempty"` // index into cfg.Lockers
	Q      int    `json:"q,omitempty"` // vault messages: 1 + index of ANOTHER product named in the message instead of the vault's own (0: consistent)
}

type vCase struct {
	Cfg vCfg  `json:"cfg"`
	Ops []vOp `json:"ops"`
}

type vMachine struct {
	forced        []vOp // operations to generate next, queued by the generator itself
	xPaid         bool  // C19 external: some reward program has paid something out
	esmRegistered bool  // C02: debt was registered for emergency redemption at some point
	t             rec.TB
	r             *rec.Rec
	prop          string
	c             *world.Chain
	cs            *vCase
	apps          []uint64
	unsol         map[string]sdk.Int // unsolicited transfers into vault custody per denom
	// per history statistics
	okKinds   map[string]int
	usersOn   map[int]map[int]bool // product -> users that created a vault there
	boundary  int                  // C03: ops placed within +-2 units of a limit
	bAccepted int
	bRejected int
	ntMint    int // C02: successful mints on products with differing scales or truncating fee
	liquidity bool
	// C13
	lockerPaid  int // locker operations that paid savings > 0
	lockerMulti bool
	lockerExit  int
	unsolMod    map[string]sdk.Int // unsolicited transfers key "module/denom"
	// liquidation / auctions
	seized     map[uint64]*seizedVault // by locked vault id, while awaiting settlement
	ledgers    map[uint64]*aucLedger   // live auctions
	retained   map[string]sdk.Int      // fees that legitimately stay in auction custody, by denom
	nSeized    int
	nClosed    int
	nRichClose int
	nRestarts  int
	nLimitExit int
	nLimitOdd  int
	pendingPre *liqSnap
}

func (m *vMachine) fail(assertion, ctx, f string, a ...interface{}) {
	m.r.Fail(m.t, assertion, ctx, m.cs, f, a...)
}

func vaultAddr() sdk.AccAddress     { return authtypes.NewModuleAddress(vaulttypes.ModuleName) }
func collectorAddr() sdk.AccAddress { return authtypes.NewModuleAddress(collectortypes.ModuleName) }

// ---- configuration ----

func genVCfg(rt *rapid.T, prop string, liq bool) vCfg {
	cfg := vCfg{Seed: uint64(rapid.IntRange(1, 1000).Draw(rt, "seed")), NUsers: rapid.IntRange(2, 4).Draw(rt, "users")}
	cfg.NApps = rapid.IntRange(1, 2).Draw(rt, "apps")
	for i := 0; i < cfg.NApps; i++ {
		cfg.InterestOn = append(cfg.InterestOn, rapid.IntRange(0, 3).Draw(rt, fmt.Sprintf("interest%d", i)) > 0)
	}
	decs := []int{6, 8, 18}
	prices := []uint64{1, 1000, 999999, 1000000, 1000001, 2000000, 31415926, 1000000000, 25000000000, 1000000000000}
	cfg.NColl = rapid.IntRange(1, 3).Draw(rt, "ncoll")
	ndebt := rapid.IntRange(1, 2).Draw(rt, "ndebt")
	names := []string{"ATOM", "OSMO", "WETH", "CMST", "HARBOR"}
	for i := 0; i < cfg.NColl+ndebt; i++ {
		a := vAsset{Name: names[i], Denom: "u" + names[i], DecExp: rapid.SampledFrom(decs).Draw(rt, fmt.Sprintf("dec%d", i))}
		if i < cfg.NColl {
			a.Price = rapid.SampledFrom(prices).Draw(rt, fmt.Sprintf("price%d", i))
		} else {
			a.Price = rapid.SampledFrom([]uint64{1000000, 1000000, 999000, 1002000, 2000000}).Draw(rt, fmt.Sprintf("price%d", i))
		}
		cfg.Assets = append(cfg.Assets, a)
	}
	np := rapid.IntRange(1, 4).Draw(rt, "nproducts")
	fees := []string{"0", "0", "0.01", "0.005", "0.0033333", "0.1"}
	for i := 0; i < np; i++ {
		p := vProduct{App: rapid.IntRange(0, cfg.NApps-1).Draw(rt, fmt.Sprintf("papp%d", i)),
			In: rapid.IntRange(0, cfg.NColl-1).Draw(rt, fmt.Sprintf("pin%d", i)), Out: cfg.NColl + rapid.IntRange(0, ndebt-1).Draw(rt, fmt.Sprintf("pout%d", i)),
			Name: fmt.Sprintf("PROD-%c", 'A'+i)}
		p.Stable = rapid.IntRange(0, 4).Draw(rt, fmt.Sprintf("pstable%d", i)) == 0
		p.DrawDown = rapid.SampledFrom(fees).Draw(rt, fmt.Sprintf("pdd%d", i))
		p.Stability = rapid.SampledFrom([]string{"0", "0.02", "0.1", "0.5", "0.999"}).Draw(rt, fmt.Sprintf("pst%d", i))
		p.Closing = rapid.SampledFrom([]string{"0", "0", "0.01", "0.0005"}).Draw(rt, fmt.Sprintf("pcl%d", i))
		p.MinCr = rapid.SampledFrom([]string{"1", "1.000000000000000001", "1.5", "2.3", "1.333333333333333333", "5"}).Draw(rt, fmt.Sprintf("pmincr%d", i))
		p.OutOracle = rapid.Bool().Draw(rt, fmt.Sprintf("poracle%d", i))
		p.OutPrice = rapid.SampledFrom([]uint64{1000000, 1000000, 990000, 1500000}).Draw(rt, fmt.Sprintf("poutprice%d", i))
		switch cfg.Assets[p.Out].DecExp {
		case 18:
			p.Floor = rapid.SampledFrom([]string{"10000000000000000", "1000000000000000000"}).Draw(rt, fmt.Sprintf("pfloor%d", i))
			p.Ceiling = rapid.SampledFrom([]string{"8000000000000000000", "3000000000000000000", "40000000000000000000"}).Draw(rt, fmt.Sprintf("pceil%d", i))
		case 8:
			p.Floor = rapid.SampledFrom([]string{"100000000", "1000000"}).Draw(rt, fmt.Sprintf("pfloor%d", i))
			p.Ceiling = rapid.SampledFrom([]string{"100000000000000000", "5000000000"}).Draw(rt, fmt.Sprintf("pceil%d", i))
		default:
			p.Floor = rapid.SampledFrom([]string{"1000000", "100000000", "1"}).Draw(rt, fmt.Sprintf("pfloor%d", i))
			p.Ceiling = rapid.SampledFrom([]string{"1000000000000000", "3000000000", "250000000"}).Draw(rt, fmt.Sprintf("pceil%d", i))
		}
		cfg.Products = append(cfg.Products, p)
	}
	if liq {
		cfg.Liq = genVLiqCfg(rt, cfg.NApps)
	}
	if prop == "C13" || prop == "C18" {
		for a := 0; a < cfg.NApps; a++ {
			for d := cfg.NColl; d < len(cfg.Assets); d++ {
				if cfg.Assets[d].DecExp == 18 {
					continue // savings accrual uses Int64(): whole 18-decimal coins do not fit
				}
				cfg.Lockers = append(cfg.Lockers, vLockerCfg{App: a, Asset: d,
					LSR:     rapid.SampledFrom([]string{"0", "0.02", "0.1", "0.5", "0.999"}).Draw(rt, fmt.Sprintf("lsr%d_%d", a, d)),
					Rewards: rapid.IntRange(0, 4).Draw(rt, fmt.Sprintf("lrew%d_%d", a, d)) > 0,
					Seed:    rapid.SampledFrom([]string{"0", "1000", "1000000000", "1000000000000", "1000000000000"}).Draw(rt, fmt.Sprintf("lseed%d_%d", a, d))})
			}
		}
	}
	return cfg
}

func newVMachine(t rec.TB, r *rec.Rec, prop string, cs *vCase) *vMachine {
	m := &vMachine{t: t, r: r, prop: prop, cs: cs, unsol: map[string]sdk.Int{}, okKinds: map[string]int{}, usersOn: map[int]map[int]bool{}}
	cfg := &cs.Cfg
	m.c = world.NewChain(world.Options{Seed: cfg.Seed, NumAccs: cfg.NUsers})
	c := m.c
	c.PrepareDefi()
	for i := range cfg.Assets {
		a := &cfg.Assets[i]
		a.ID = c.AddAsset(a.Name, a.Denom, a.DecExp, a.Price, true)
	}
	for i := 0; i < cfg.NApps; i++ {
		// the collector's secondary asset (asset 0 here) has to be a genesis-minting token of the app,
		// as the contract-side query that precedes the privileged binding demands
		id := c.AddAppWithGenesisToken(fmt.Sprintf("app%c", 'a'+i), cfg.Assets[0].ID, c.Accs[0].Addr.String())
		m.apps = append(m.apps, id)
		if cfg.InterestOn[i] {
			if err := c.App.Rewardskeeper.WhitelistAppIDVault(c.Ctx, id); err != nil {
				panic(err)
			}
		}
	}
	for i := range cfg.Products {
		p := &cfg.Products[i]
		p.PairID = 0
		for _, pr := range c.App.AssetKeeper.GetPairs(c.Ctx) {
			if pr.AssetIn == cfg.Assets[p.In].ID && pr.AssetOut == cfg.Assets[p.Out].ID {
				p.PairID = pr.Id
			}
		}
		if p.PairID == 0 {
			p.PairID = c.AddPair(cfg.Assets[p.In].ID, cfg.Assets[p.Out].ID)
		}
		floor, _ := sdk.NewIntFromString(p.Floor)
		ceil, _ := sdk.NewIntFromString(p.Ceiling)
		p.ID = c.AddProduct(bindings.MsgAddExtendedPairsVault{AppID: m.apps[p.App], PairID: p.PairID, StabilityFee: sdk.MustNewDecFromStr(p.Stability),
			ClosingFee: sdk.MustNewDecFromStr(p.Closing), LiquidationPenalty: sdk.MustNewDecFromStr("0.12"), DrawDownFee: sdk.MustNewDecFromStr(p.DrawDown), IsVaultActive: true,
			DebtCeiling: ceil, DebtFloor: floor, IsStableMintVault: p.Stable, MinCr: sdk.MustNewDecFromStr(p.MinCr), PairName: p.Name,
			AssetOutOraclePrice: p.OutOracle, AssetOutPrice: p.OutPrice, MinUsdValueLeft: 1000000})
	}
	// fund users: plenty of every collateral, and some of every debt asset so that
	// interest and closing fees (paid out of existing supply) can be paid
	for _, u := range c.Accs {
		coins := sdk.NewCoins()
		for i, a := range cfg.Assets {
			if i < cfg.NColl {
				coins = coins.Add(sdk.NewCoin(a.Denom, world.Pow10(27)))
			} else {
				n := world.Pow10(a.DecExp).MulRaw(5)
				if cfg.Liq != nil {
					n = world.Pow10(a.DecExp + 7) // bidders need the debt asset
				}
				coins = coins.Add(sdk.NewCoin(a.Denom, n))
			}
		}
		c.Fund(u.Addr, coins)
	}
	if cfg.Liq != nil {
		m.setupLiq()
	}
	for _, lc := range cfg.Lockers {
		app, asset := m.apps[lc.App], cfg.Assets[lc.Asset]
		huge := world.Pow10(40)
		if err := c.App.CollectorKeeper.WasmSetCollectorLookupTable(c.Ctx, &bindings.MsgSetCollectorLookupTable{AppID: app, CollectorAssetID: asset.ID, SecondaryAssetID: cfg.Assets[0].ID,
			SurplusThreshold: huge, DebtThreshold: sdk.ZeroInt(), LockerSavingRate: sdk.MustNewDecFromStr(lc.LSR), LotSize: sdk.NewInt(1000000), BidFactor: sdk.MustNewDecFromStr("0.01"), DebtLotSize: sdk.NewInt(1000000)}); err != nil {
			panic(err)
		}
		if _, err := c.App.LockerKeeper.AddWhiteListedAsset(c.Ctx, lockertypes.NewMsgAddWhiteListedAssetRequest(c.Accs[0].Addr.String(), app, asset.ID)); err != nil {
			panic(err)
		}
		if lc.Rewards {
			if err := c.App.Rewardskeeper.WhitelistAssetForInternalRewards(c.Ctx, app, asset.ID); err != nil {
				panic(err)
			}
		}
		if seed := mustInt(lc.Seed); seed.IsPositive() {
			c.FundModule(collectortypes.ModuleName, sdk.NewCoins(sdk.NewCoin(asset.Denom, seed)))
			if err := c.App.CollectorKeeper.UpdateCollector(c.Ctx, app, asset.ID, seed, sdk.ZeroInt(), sdk.ZeroInt(), sdk.ZeroInt()); err != nil {
				panic(err)
			}
		}
	}
	c.NextBlock(5 * time.Second)
	return m
}

// ---- state helpers ----

func (m *vMachine) product(i int) *vProduct      { return &m.cs.Cfg.Products[i] }
func (m *vMachine) inAsset(p *vProduct) *vAsset  { return &m.cs.Cfg.Assets[p.In] }
func (m *vMachine) outAsset(p *vProduct) *vAsset { return &m.cs.Cfg.Assets[p.Out] }

func (m *vMachine) userVault(u, pi int) (vaulttypes.Vault, bool) {
	p := m.product(pi)
	md, ok := m.c.App.VaultKeeper.GetUserAppExtendedPairMappingData(m.c.Ctx, m.c.Accs[u].Addr.String(), m.apps[p.App], p.ID)
	if !ok {
		return vaulttypes.Vault{}, false
	}
	return m.c.App.VaultKeeper.GetVault(m.c.Ctx, md.VaultId)
}

func (m *vMachine) stableVault(pi int) (vaulttypes.StableMintVault, bool) {
	p := m.product(pi)
	for _, sv := range m.c.App.VaultKeeper.GetStableMintVaults(m.c.Ctx) {
		if sv.AppId == m.apps[p.App] && sv.ExtendedPairVaultID == p.ID {
			return sv, true
		}
	}
	return vaulttypes.StableMintVault{}, false
}

// prices in force: (pIn, activeIn, pOut, activeOut) in micro-USD per whole coin
func (m *vMachine) prices(p *vProduct) (uint64, bool, uint64, bool) {
	tin, fin := m.c.App.MarketKeeper.GetTwa(m.c.Ctx, m.inAsset(p).ID)
	pin, ain := tin.Twa, fin && tin.IsPriceActive
	if !p.OutOracle {
		return pin, ain, p.OutPrice, true
	}
	tout, fout := m.c.App.MarketKeeper.GetTwa(m.c.Ctx, m.outAsset(p).ID)
	return pin, ain, tout.Twa, fout && tout.IsPriceActive
}

// exact ratio collateral value / debt value
func (m *vMachine) ratio(p *vProduct, in, out sdk.Int) *big.Rat {
	pin, _, pout, _ := m.prices(p)
	vin := new(big.Rat).SetFrac(new(big.Int).Mul(in.BigInt(), new(big.Int).SetUint64(pin)), world.Pow10(m.inAsset(p).DecExp).BigInt())
	vout := new(big.Rat).SetFrac(new(big.Int).Mul(out.BigInt(), new(big.Int).SetUint64(pout)), world.Pow10(m.outAsset(p).DecExp).BigInt())
	if vout.Sign() == 0 {
		return nil
	}
	return vin.Quo(vin, vout)
}

// minimal collateral such that in*pin/decIn >= minCr*out*pout/decOut (exact, rounded up)
func (m *vMachine) minCollateral(p *vProduct, out sdk.Int) sdk.Int {
	pin, _, pout, _ := m.prices(p)
	if pin == 0 {
		return sdk.OneInt()
	}
	num := new(big.Rat).SetFrac(new(big.Int).Mul(out.BigInt(), new(big.Int).SetUint64(pout)), world.Pow10(m.outAsset(p).DecExp).BigInt())
	num.Mul(num, decRat(sdk.MustNewDecFromStr(p.MinCr)))
	num.Mul(num, new(big.Rat).SetFrac(world.Pow10(m.inAsset(p).DecExp).BigInt(), new(big.Int).SetUint64(pin)))
	q := new(big.Int).Quo(num.Num(), num.Denom())
	if new(big.Int).Mul(q, num.Denom()).Cmp(num.Num()) != 0 {
		q.Add(q, big.NewInt(1))
	}
	return sdk.NewIntFromBigInt(q)
}

// maximal debt such that in*pin/decIn >= minCr*debt*pout/decOut (exact, rounded down)
func (m *vMachine) maxDebt(p *vProduct, in sdk.Int) sdk.Int {
	pin, _, pout, _ := m.prices(p)
	if pout == 0 {
		return sdk.ZeroInt()
	}
	num := new(big.Rat).SetFrac(new(big.Int).Mul(in.BigInt(), new(big.Int).SetUint64(pin)), world.Pow10(m.inAsset(p).DecExp).BigInt())
	num.Quo(num, decRat(sdk.MustNewDecFromStr(p.MinCr)))
	num.Mul(num, new(big.Rat).SetFrac(world.Pow10(m.outAsset(p).DecExp).BigInt(), new(big.Int).SetUint64(pout)))
	return sdk.NewIntFromBigInt(new(big.Int).Quo(num.Num(), num.Denom()))
}

func clampPos(i sdk.Int) sdk.Int {
	if !i.IsPositive() {
		return sdk.OneInt()
	}
	return i
}

// ---- operation generation (state-relative) ----

func (m *vMachine) genOp(rt *rapid.T, i int) vOp {
	cfg := &m.cs.Cfg
	if len(m.forced) > 0 {
		// the follow-up an earlier generated operation asked for
		op := m.forced[0]
		m.forced = m.forced[1:]
		return op
	}
	lbl := func(s string) string { return fmt.Sprintf("%s_%d", s, i) }
	kinds := []string{"create", "create", "create", "deposit", "withdraw", "draw", "draw", "repay", "repay", "close", "depdraw", "intcalc", "block", "block", "price", "unsolicited", "smcreate", "smdeposit", "smwithdraw"}
	if m.prop == "C03" {
		kinds = append(kinds, "create", "draw", "withdraw", "depdraw", "price", "block")
	}
	if m.prop == "C13" {
		kinds = append(kinds, "block", "block", "block", "repay", "close", "draw")
	}
	if m.prop == "C19" {
		if k := rapid.SampledFrom([]string{"", "", "", "", "xlocker", "xvault", "day", "day", "day"}).Draw(rt, lbl("xkind")); k != "" {
			return m.c19XGenOp(rt, i, k)
		}
	}
	if (m.prop == "C02" || m.prop == "C01") && cfg.Liq == nil && cfg.Seed%3 == 0 { // a third of the generated worlds
		// emergency shutdown of an app, the blocks that carry it through its cool-off, and redemptions afterwards
		if op, ok := m.c02EsmGenOp(rt, i); ok {
			return op
		}
	}
	if len(cfg.Lockers) > 0 && rapid.IntRange(0, 9).Draw(rt, lbl("lockerop")) < lockerWeight(m.prop) {
		return m.genLockerOp(rt, i)
	}
	if cfg.Liq != nil && rapid.IntRange(0, 9).Draw(rt, lbl("liqop")) < 5 {
		if op, ok := m.genLiqOp(rt, i); ok {
			return op
		}
	}
	k := rapid.SampledFrom(kinds).Draw(rt, lbl("kind"))
	op := vOp{K: k}
	delta := func() int64 { return rapid.Int64Range(-2, 2).Draw(rt, lbl("delta")) }
	pickProduct := func(stable bool) (int, bool) {
		var idx []int
		for j, p := range cfg.Products {
			if p.Stable == stable {
				idx = append(idx, j)
			}
		}
		if len(idx) == 0 {
			return 0, false
		}
		return rapid.SampledFrom(idx).Draw(rt, lbl("product")), true
	}
	switch k {
	case "block":
		op.Dt = rapid.SampledFrom([]int64{5, 6, 3600, 86400, 30 * 86400, 365 * 86400, 3 * 365 * 86400}).Draw(rt, lbl("dt"))
		return op
	case "price":
		op.Asset = rapid.IntRange(0, len(cfg.Assets)-1).Draw(rt, lbl("asset"))
		tw, _ := m.c.App.MarketKeeper.GetTwa(m.c.Ctx, cfg.Assets[op.Asset].ID)
		cur := tw.Twa
		if !tw.IsPriceActive && rapid.IntRange(0, 3).Draw(rt, lbl("react")) > 0 {
			op.Price, op.Active = cur, true
			return op
		}
		switch rapid.IntRange(0, 11).Draw(rt, lbl("pk")) {
		case 0:
			op.Price, op.Active = cur, false
		case 1, 2:
			op.Price, op.Active = cur*3/10+1, true
		case 3, 4:
			op.Price, op.Active = cur*3, true
		case 5:
			op.Price, op.Active = cur+1, true
		case 6, 7, 8:
			op.Price, op.Active = cur*101/100+1, true
		default:
			op.Price, op.Active = cur*99/100+1, true
		}
		if op.Price > 1e15 {
			op.Price = 1e15
		}
		return op
	case "unsolicited":
		op.U = rapid.IntRange(0, cfg.NUsers-1).Draw(rt, lbl("user"))
		op.Asset = rapid.IntRange(0, cfg.NColl-1).Draw(rt, lbl("asset"))
		op.A = rapid.SampledFrom([]string{"1", "1000", "123456789"}).Draw(rt, lbl("amt"))
		return op
	}
	op.U = rapid.IntRange(0, cfg.NUsers-1).Draw(rt, lbl("user"))
	stable := k == "smcreate" || k == "smdeposit" || k == "smwithdraw"
	pi, ok := pickProduct(stable)
	if !ok {
		return vOp{K: "block", Dt: 5}
	}
	if !stable && k != "create" {
		// operate on an existing vault; with none, open one instead
		type up struct{ u, p int }
		var have []up
		for u := 0; u < cfg.NUsers; u++ {
			for j := range cfg.Products {
				if _, ok := m.userVault(u, j); ok {
					have = append(have, up{u, j})
				}
			}
		}
		if len(have) == 0 {
			k, op.K = "create", "create"
		} else if rapid.IntRange(0, 19).Draw(rt, lbl("stray")) > 0 {
			x := rapid.SampledFrom(have).Draw(rt, lbl("vault"))
			op.U, pi = x.u, x.p
		}
	}
	if k == "create" {
		// prefer a (user, product) pair without a vault
		type up struct{ u, p int }
		var free []up
		for u := 0; u < cfg.NUsers; u++ {
			for j, pr := range cfg.Products {
				if pr.Stable {
					continue
				}
				if _, ok := m.userVault(u, j); !ok {
					free = append(free, up{u, j})
				}
			}
		}
		if len(free) > 0 && rapid.IntRange(0, 9).Draw(rt, lbl("fresh")) > 0 {
			x := rapid.SampledFrom(free).Draw(rt, lbl("slot"))
			op.U, pi = x.u, x.p
		}
	}
	if stable && k != "smcreate" {
		if _, ok := m.stableVault(pi); !ok {
			k, op.K = "smcreate", "smcreate"
		}
	}
	op.P = pi
	p := m.product(pi)
	floor, _ := sdk.NewIntFromString(p.Floor)
	ceil, _ := sdk.NewIntFromString(p.Ceiling)
	if stable {
		inUnit, outUnit := world.Pow10(m.inAsset(p).DecExp), world.Pow10(m.outAsset(p).DecExp)
		switch k {
		case "smcreate", "smdeposit":
			// collateral amount that converts to roughly floor .. 50*floor of debt
			mult := rapid.Int64Range(1, 50).Draw(rt, lbl("mult"))
			a := floor.MulRaw(mult).Mul(inUnit).Quo(outUnit).AddRaw(delta())
			op.A = clampPos(a).String()
		case "smwithdraw":
			sv, ok := m.stableVault(pi)
			a := floor.AddRaw(delta())
			if ok && rapid.Bool().Draw(rt, lbl("all")) {
				a = sv.AmountOut.AddRaw(delta())
			} else if ok {
				a = sv.AmountOut.QuoRaw(3).AddRaw(delta())
			}
			op.A = clampPos(a).String()
		}
		return op
	}
	v, has := m.userVault(op.U, pi)
	switch k {
	case "create":
		var out sdk.Int
		switch rapid.IntRange(0, 9).Draw(rt, lbl("outk")) {
		case 0:
			out = floor.AddRaw(delta())
		case 1:
			// towards the ceiling: remaining headroom +- delta
			stats, _ := m.c.App.VaultKeeper.GetAppExtendedPairVaultMappingData(m.c.Ctx, m.apps[p.App], p.ID)
			minted := stats.TokenMintedAmount
			if minted.IsNil() {
				minted = sdk.ZeroInt()
			}
			out = ceil.Sub(minted).AddRaw(delta())
		default:
			out = floor.MulRaw(rapid.Int64Range(1, 40).Draw(rt, lbl("outm")))
		}
		out = clampPos(out)
		in := m.minCollateral(p, out)
		switch rapid.IntRange(0, 3).Draw(rt, lbl("ink")) {
		case 0, 1:
			in = in.AddRaw(delta())
			m.boundary++
		case 2:
			in = in.MulRaw(2)
		default:
			in = in.MulRaw(rapid.Int64Range(3, 20).Draw(rt, lbl("inm")))
		}
		op.A, op.B = clampPos(in).String(), out.String()
	case "deposit":
		op.A = rapid.SampledFrom([]string{"1", "1000", "1000000", "123456789012", "1000000000000000000"}).Draw(rt, lbl("amt"))
	case "withdraw":
		a := sdk.OneInt()
		if has {
			debt := v.AmountOut.Add(v.InterestAccumulated).Add(v.ClosingFeeAccumulated)
			need := m.minCollateral(p, debt)
			switch rapid.IntRange(0, 2).Draw(rt, lbl("wk")) {
			case 0, 1:
				a = v.AmountIn.Sub(need).AddRaw(delta())
				m.boundary++
			default:
				a = v.AmountIn.Sub(need).QuoRaw(2)
			}
		}
		op.A = clampPos(a).String()
	case "draw", "depdraw":
		a := floor
		if has {
			in := v.AmountIn
			if k == "depdraw" {
				op.B = rapid.SampledFrom([]string{"1", "1000000", "123456789012"}).Draw(rt, lbl("dep"))
			}
			debt := v.AmountOut.Add(v.InterestAccumulated).Add(v.ClosingFeeAccumulated)
			switch rapid.IntRange(0, 3).Draw(rt, lbl("dk")) {
			case 0, 1:
				a = m.maxDebt(p, in).Sub(debt).AddRaw(delta())
				m.boundary++
			case 2:
				stats, _ := m.c.App.VaultKeeper.GetAppExtendedPairVaultMappingData(m.c.Ctx, m.apps[p.App], p.ID)
				a = ceil.Sub(stats.TokenMintedAmount).AddRaw(delta())
				m.boundary++
			default:
				a = m.maxDebt(p, in).Sub(debt).QuoRaw(3)
			}
		}
		op.A = clampPos(a).String()
		if k == "depdraw" {
			// MsgDepositAndDraw takes the deposit amount; the draw amount is derived by the keeper
			op.A = op.B
			if op.A == "" {
				op.A = "1000"
			}
			op.B = ""
		}
	case "repay":
		a := sdk.OneInt()
		if has {
			switch rapid.IntRange(0, 4).Draw(rt, lbl("rk")) {
			case 0:
				a = v.InterestAccumulated.AddRaw(delta())
			case 1:
				a = v.AmountOut.Add(v.InterestAccumulated).Sub(floor).AddRaw(delta())
				m.boundary++
			case 2:
				a = v.AmountOut.Add(v.InterestAccumulated).AddRaw(delta())
			default:
				a = v.AmountOut.QuoRaw(rapid.Int64Range(2, 10).Draw(rt, lbl("rq")))
			}
		}
		op.A = clampPos(a).String()
	}
	switch k {
	case "deposit", "withdraw", "draw", "repay", "close", "depdraw":
		// a message is free to name a product other than the one its vault belongs to
		if len(cfg.Products) > 1 && rapid.IntRange(0, 11).Draw(rt, lbl("otherproduct")) == 0 {
			q := rapid.IntRange(0, len(cfg.Products)-2).Draw(rt, lbl("q"))
			if q >= op.P {
				q++
			}
			op.Q = q + 1
		}
	}
	return op
}

// ---- snapshots ----

type vSnap struct {
	userIn, userOut sdk.Int
	collOut         sdk.Int
	supplyOut       sdk.Int
	vault           vaulttypes.Vault
	hasVault        bool
	sv              vaulttypes.StableMintVault
	hasSV           bool
	netFee          sdk.Int
}

func (m *vMachine) snap(u int, p *vProduct, pi int) vSnap {
	c := m.c
	s := vSnap{userIn: c.Bal(c.Accs[u].Addr, m.inAsset(p).Denom), userOut: c.Bal(c.Accs[u].Addr, m.outAsset(p).Denom),
		collOut: c.Bal(collectorAddr(), m.outAsset(p).Denom), supplyOut: c.Supply(m.outAsset(p).Denom)}
	s.vault, s.hasVault = m.userVault(u, pi)
	s.sv, s.hasSV = m.stableVault(pi)
	nf, _ := c.App.CollectorKeeper.GetNetFeeCollectedData(c.Ctx, m.apps[p.App], m.outAsset(p).ID)
	s.netFee = nf.NetFeesCollected
	if s.netFee.IsNil() {
		s.netFee = sdk.ZeroInt()
	}
	return s
}

// ---- applying one operation ----

func (m *vMachine) apply(i int, op vOp) {
	c := m.c
	cfg := &m.cs.Cfg
	var pre *c13Snap
	if m.prop == "C13" {
		pre = m.c13Snapshot()
		defer func() { m.c13Delta(i, op, pre) }()
	}
	if cfg.Liq != nil {
		m.pendingPre = m.liqSnapshot()
		defer func() { m.flushLiqObserve(i, op) }()
	}
	switch op.K {
	case "liqmsg", "bid", "extliq", "reserve", "lbdep", "lbwd", "lbcancel":
		m.applyLiq(i, op)
		m.invariants(i, op)
		return
	case "lcreate", "ldeposit", "lwithdraw", "lclose", "lcalc", "lsr", "lunsol":
		m.applyLocker(i, op)
		m.invariants(i, op)
		return
	case "xlocker", "xvault":
		m.c19XApply(i, op)
		m.invariants(i, op)
		return
	case "esm", "redeem":
		m.c02EsmApply(i, op)
		m.invariants(i, op)
		return
	case "block":
		if err := c.NextBlockRecover(time.Duration(op.Dt) * time.Second); err != nil {
			m.fail(m.prop+".block-hook-panic", "block", "step %d: %v", i, err)
		}
		m.okKinds["block"]++
		m.invariants(i, op)
		return
	case "price":
		c.SetPrice(cfg.Assets[op.Asset].ID, op.Price, op.Active)
		m.okKinds["price"]++
		m.invariants(i, op)
		return
	case "unsolicited":
		amt := mustInt(op.A)
		d := cfg.Assets[op.Asset].Denom
		if err := c.App.BankKeeper.SendCoins(c.Ctx, c.Accs[op.U].Addr, vaultAddr(), sdk.NewCoins(sdk.NewCoin(d, amt))); err == nil {
			if _, ok := m.unsol[d]; !ok {
				m.unsol[d] = sdk.ZeroInt()
			}
			m.unsol[d] = m.unsol[d].Add(amt)
			m.okKinds["unsolicited"]++
		}
		m.invariants(i, op)
		return
	}
	p := m.product(op.P)
	app := m.apps[p.App]
	from := c.Accs[op.U].Addr
	before := m.snap(op.U, p, op.P)
	pin, ain, pout, aout := m.prices(p)
	_, _ = pin, pout
	var msg sdk.Msg
	amt := sdk.ZeroInt()
	if op.A != "" {
		amt = mustInt(op.A)
	}
	named := p.ID // the product the message names
	if op.Q > 0 && op.Q-1 < len(cfg.Products) {
		named = m.product(op.Q - 1).ID
	}
	switch op.K {
	case "create":
		msg = vaulttypes.NewMsgCreateRequest(from, app, p.ID, amt, mustInt(op.B))
	case "deposit":
		msg = vaulttypes.NewMsgDepositRequest(from, app, named, before.vault.Id, amt)
	case "withdraw":
		msg = vaulttypes.NewMsgWithdrawRequest(from, app, named, before.vault.Id, amt)
	case "draw":
		msg = vaulttypes.NewMsgDrawRequest(from, app, named, before.vault.Id, amt)
	case "repay":
		msg = vaulttypes.NewMsgRepayRequest(from, app, named, before.vault.Id, amt)
	case "close":
		msg = vaulttypes.NewMsgLiquidateRequest(from, app, named, before.vault.Id)
	case "depdraw":
		msg = vaulttypes.NewMsgDepositAndDrawRequest(from, app, named, before.vault.Id, amt)
	case "intcalc":
		msg = vaulttypes.NewMsgVaultInterestCalcRequest(from, app, before.vault.Id)
	case "smcreate":
		msg = vaulttypes.NewMsgCreateStableMintRequest(from, app, p.ID, amt)
	case "smdeposit":
		msg = vaulttypes.NewMsgDepositStableMintRequest(from, app, p.ID, amt, before.sv.Id)
	case "smwithdraw":
		msg = vaulttypes.NewMsgWithdrawStableMintRequest(from, app, p.ID, amt, before.sv.Id)
	default:
		panic("unknown op " + op.K)
	}
	_, err := c.Deliver(msg)
	ok := err == nil
	if !ok && debugErrs {
		e := err.Error()
		if len(e) > 60 {
			e = e[:60]
		}
		m.r.Class("err:" + op.K + ":" + e)
	}
	if named != p.ID {
		// the per-message oracles below assume a message that names the vault's own product; for the others only
		// the invariants over custody and the published totals are judged
		if ok {
			m.r.Class("message-naming-another-product:accepted:" + op.K)
		} else {
			m.r.Class("message-naming-another-product:refused")
		}
		m.invariants(i, op)
		return
	}
	after := m.snap(op.U, p, op.P)
	if ok {
		m.okKinds[op.K]++
		if op.K == "create" {
			if m.usersOn[op.P] == nil {
				m.usersOn[op.P] = map[int]bool{}
			}
			m.usersOn[op.P][op.U] = true
		}
	}
	switch m.prop {
	case "C02":
		m.c02Step(i, op, p, before, after, ok, err)
	case "C03":
		m.c03Step(i, op, p, before, after, ok, err, ain, aout)
	}
	m.invariants(i, op)
}

// ---- C01: custody and published totals ----

// flushLiqObserve records seizures, bids and closes of the step just executed;
// it runs before the invariants of the step (which need the model up to date).
func (m *vMachine) flushLiqObserve(i int, op vOp) {
	if m.pendingPre != nil {
		pre := m.pendingPre
		m.pendingPre = nil
		m.liqObserve(i, op, pre)
	}
}

func (m *vMachine) invariants(i int, op vOp) {
	m.flushLiqObserve(i, op)
	switch m.prop {
	case "C01":
		m.c01Invariants(i, op)
	case "C02":
		m.c02Invariants(i, op)
	case "C03":
		m.c03Invariants(i, op)
	case "C13":
		m.c13Invariants(i, op)
	case "C19":
		m.c19XInvariants(i, op)
	}
}

func (m *vMachine) c01Invariants(i int, op vOp) {
	c := m.c
	cfg := &m.cs.Cfg
	vk := c.App.VaultKeeper
	vaults := vk.GetVaults(c.Ctx)
	svs := vk.GetStableMintVaults(c.Ctx)
	// 1. custody per collateral denom
	for ai := 0; ai < cfg.NColl; ai++ {
		a := cfg.Assets[ai]
		sum := sdk.ZeroInt()
		for _, v := range vaults {
			if m.productByID(v.ExtendedPairVaultID) != nil && m.inAsset(m.productByID(v.ExtendedPairVaultID)).Denom == a.Denom {
				sum = sum.Add(v.AmountIn)
			}
		}
		for _, sv := range svs {
			if m.productByID(sv.ExtendedPairVaultID) != nil && m.inAsset(m.productByID(sv.ExtendedPairVaultID)).Denom == a.Denom {
				sum = sum.Add(sv.AmountIn)
			}
		}
		held := c.Bal(vaultAddr(), a.Denom)
		if u, ok := m.unsol[a.Denom]; ok {
			held = held.Sub(u)
		}
		if !held.Equal(sum) {
			m.fail("C01.custody-equality", "after:"+op.K, "step %d: vault custody holds %s%s (net of unsolicited), open vaults and stable-mint vaults record %s", i, held, a.Denom, sum)
		}
	}
	// 2. vault count
	if n := vk.GetLengthOfVault(c.Ctx); n != uint64(len(vaults)) {
		m.fail("C01.vault-count", "after:"+op.K, "step %d: published vault count %d, open vaults %d", i, n, len(vaults))
	}
	// 3. per product totals
	for pi := range cfg.Products {
		p := m.product(pi)
		stats, found := vk.GetAppExtendedPairVaultMappingData(c.Ctx, m.apps[p.App], p.ID)
		sumIn, sumOut := sdk.ZeroInt(), sdk.ZeroInt()
		ids := map[uint64]bool{}
		for _, v := range vaults {
			if v.ExtendedPairVaultID == p.ID && v.AppId == m.apps[p.App] {
				sumIn, sumOut = sumIn.Add(v.AmountIn), sumOut.Add(v.AmountOut)
				ids[v.Id] = true
			}
		}
		// an executed emergency shutdown empties the app's stable-mint vault and takes it off the product's list; the
		// (never deleted) record itself stays
		shut := false
		if st, ok := c.App.EsmKeeper.GetESMStatus(c.Ctx, m.apps[p.App]); ok && st.StableVaultRedemptionStatus {
			shut = true
		}
		for _, sv := range svs {
			if sv.ExtendedPairVaultID == p.ID && sv.AppId == m.apps[p.App] {
				sumIn, sumOut = sumIn.Add(sv.AmountIn), sumOut.Add(sv.AmountOut)
				if !(shut && sv.AmountIn.IsZero() && sv.AmountOut.IsZero()) {
					ids[sv.Id] = true
				}
			}
		}
		if !found {
			if !sumIn.IsZero() || !sumOut.IsZero() {
				m.fail("C01.product-totals", "missing-record", "step %d: product %s has vaults but no published totals", i, p.Name)
			}
			continue
		}
		cl, tm := stats.CollateralLockedAmount, stats.TokenMintedAmount
		if cl.IsNil() {
			cl = sdk.ZeroInt()
		}
		if tm.IsNil() {
			tm = sdk.ZeroInt()
		}
		kind := "vault"
		if p.Stable {
			kind = "stable-mint"
		}
		// vaults awaiting auction settlement still count towards the product's totals
		awaitIn, awaitPrincipal, awaitTotal := sdk.ZeroInt(), sdk.ZeroInt(), sdk.ZeroInt()
		for _, sz := range m.seized {
			if sz.product == pi && sz.initiator == "vault" {
				awaitIn = awaitIn.Add(sz.collateral)
				awaitPrincipal = awaitPrincipal.Add(sz.principal)
				awaitTotal = awaitTotal.Add(sz.totalOut)
			}
		}
		if !awaitIn.IsZero() {
			kind += ",awaiting-settlement"
		} else if m.nClosed > 0 {
			kind += ",after-settlement"
		}
		if !cl.Equal(sumIn.Add(awaitIn)) {
			m.fail("C01.collateral-locked-total", kind+",after:"+op.K, "step %d: product %s publishes collateral locked %s, open vaults sum to %s, vaults awaiting settlement hold %s", i, p.Name, cl, sumIn, awaitIn)
		}
		// for a vault awaiting settlement either its principal or its recorded total debt may be published
		if !tm.Equal(sumOut.Add(awaitPrincipal)) && !tm.Equal(sumOut.Add(awaitTotal)) {
			m.fail("C01.tokens-minted-total", kind+",after:"+op.K, "step %d: product %s publishes tokens minted %s, open vaults sum to %s, vaults awaiting settlement: principal %s / total debt %s", i, p.Name, tm, sumOut, awaitPrincipal, awaitTotal)
		}
		if len(stats.VaultIds) != len(ids) {
			m.fail("C01.vault-id-list", kind+",after:"+op.K, "step %d: product %s lists vault ids %v, open vault ids %v", i, p.Name, stats.VaultIds, ids)
		}
		for _, id := range stats.VaultIds {
			if !ids[id] {
				m.fail("C01.vault-id-list", kind+",after:"+op.K, "step %d: product %s lists vault id %d which is not open", i, p.Name, id)
			}
		}
	}
}

func (m *vMachine) productByID(id uint64) *vProduct {
	for i := range m.cs.Cfg.Products {
		if m.cs.Cfg.Products[i].ID == id {
			return &m.cs.Cfg.Products[i]
		}
	}
	return nil
}

// ---- C02: no unbacked stablecoin ----

func (m *vMachine) c02Invariants(i int, op vOp) {
	c := m.c
	cfg := &m.cs.Cfg
	vk := c.App.VaultKeeper
	for ai := cfg.NColl; ai < len(cfg.Assets); ai++ {
		a := cfg.Assets[ai]
		sum := sdk.ZeroInt()
		for _, v := range vk.GetVaults(c.Ctx) {
			if p := m.productByID(v.ExtendedPairVaultID); p != nil && m.outAsset(p).Denom == a.Denom {
				sum = sum.Add(v.AmountOut)
			}
		}
		for _, sv := range vk.GetStableMintVaults(c.Ctx) {
			if p := m.productByID(sv.ExtendedPairVaultID); p != nil && m.outAsset(p).Denom == a.Denom {
				sum = sum.Add(sv.AmountOut)
			}
		}
		circ := c.Supply(a.Denom).Sub(c.Minted.AmountOf(a.Denom))
		// debt registered for emergency redemption: when an app's shutdown has run its course its vaults are closed and
		// their principal is recorded per debt asset, to be bought back (and burned) against the pooled collateral
		for _, app := range m.apps {
			if reg, ok := c.App.EsmKeeper.GetAssetToAmount(c.Ctx, app, a.ID); ok && !reg.IsCollateral {
				sum = sum.Add(reg.Amount)
				if reg.Amount.IsPositive() {
					m.esmRegistered = true
				}
			}
		}
		if cfg.Liq != nil {
			// with liquidations: never more in circulation than the principal of open vaults plus that of vaults awaiting
			// the settlement of their auction (the settlement burns it, together with interest and closing fee)
			awaiting := sdk.ZeroInt()
			for _, sz := range m.seized {
				if sz.initiator == "vault" && m.outAsset(m.product(sz.product)).Denom == a.Denom {
					awaiting = awaiting.Add(sz.principal)
				}
			}
			if circ.GT(sum.Add(awaiting)) {
				m.fail("C02.supply-within-principal", "after:"+op.K, "step %d: vault-minted supply of %s is %s; open vaults record %s, vaults awaiting auction settlement %s", i, a.Denom, circ, sum, awaiting)
			}
			continue
		}
		if debugErrs {
			fmt.Printf("DBG c02 step %d %s %s: circ=%s sum(with registered)=%s vaults=%d stable=%d\n", i, op.K, a.Denom, circ, sum, len(vk.GetVaults(c.Ctx)), len(vk.GetStableMintVaults(c.Ctx)))
		}
		// histories of this machine contain no liquidation: exact equality
		if !circ.Equal(sum) {
			m.fail("C02.supply-equals-principal", "after:"+op.K, "step %d: vault-minted supply of %s is %s, recorded principal %s", i, a.Denom, circ, sum)
		}
	}
}

func (m *vMachine) c02Step(i int, op vOp, p *vProduct, b, a vSnap, ok bool, err error) {
	if !ok {
		if !a.supplyOut.Equal(b.supplyOut) {
			m.fail("C02.rejected-changes-supply", op.K, "step %d: rejected %s changed supply %s -> %s", i, op.K, b.supplyOut, a.supplyOut)
		}
		return
	}
	dd := sdk.MustNewDecFromStr(p.DrawDown)
	dSupply := a.supplyOut.Sub(b.supplyOut)
	dUser := a.userOut.Sub(b.userOut)
	dColl := a.collOut.Sub(b.collOut)
	ctx := op.K
	if dd.IsZero() {
		ctx += ",zero-draw-down-fee"
	} else {
		ctx += ",draw-down-fee"
	}
	if m.inAsset(p).DecExp != m.outAsset(p).DecExp {
		ctx += ",scales-differ"
	}
	principalBefore, principalAfter := sdk.ZeroInt(), sdk.ZeroInt()
	switch op.K {
	case "create", "draw", "depdraw", "repay", "close", "intcalc", "deposit", "withdraw":
		if b.hasVault {
			principalBefore = b.vault.AmountOut
		}
		if a.hasVault {
			principalAfter = a.vault.AmountOut
		}
	case "smcreate", "smdeposit", "smwithdraw":
		if b.hasSV {
			principalBefore = b.sv.AmountOut
		}
		if a.hasSV {
			principalAfter = a.sv.AmountOut
		}
	}
	dP := principalAfter.Sub(principalBefore)
	switch op.K {
	case "create", "draw", "depdraw", "smcreate", "smdeposit":
		fee := sdk.NewDecFromInt(dP).Mul(dd).TruncateInt()
		if !dSupply.Equal(dP) {
			m.fail("C02.mint-equals-recorded-principal", ctx, "step %d: %s minted %s but recorded principal grew by %s", i, op.K, dSupply, dP)
		}
		if !dUser.Equal(dP.Sub(fee)) {
			m.fail("C02.mint-delivers-principal-less-fee", ctx, "step %d: %s: user received %s, recorded new principal %s, draw-down fee %s", i, op.K, dUser, dP, fee)
		}
		if !dColl.Equal(fee) {
			m.fail("C02.draw-down-fee-to-collector", ctx, "step %d: %s: collector received %s, fee is %s", i, op.K, dColl, fee)
		}
		feeExact := new(big.Rat).Mul(ratInt(dP), decRat(dd))
		if m.inAsset(p).DecExp != m.outAsset(p).DecExp || (!dd.IsZero() && !feeExact.IsInt()) {
			m.ntMint++
		}
	case "repay", "close":
		if !dSupply.Equal(dP) {
			m.fail("C02.burn-equals-principal-retired", ctx, "step %d: %s burned %s, principal retired %s", i, op.K, dSupply.Neg(), dP.Neg())
		}
		// what the user paid beyond principal goes to the collector (interest, closing fee)
		paid := dUser.Neg()
		if !dColl.Equal(paid.Sub(dP.Neg())) {
			m.fail("C02.interest-and-fees-from-existing-supply", ctx, "step %d: %s: user paid %s, principal retired %s, collector received %s", i, op.K, paid, dP.Neg(), dColl)
		}
	case "smwithdraw":
		fee := sdk.NewDecFromInt(mustInt(op.A)).Mul(dd).TruncateInt()
		if !dSupply.Equal(dP) {
			m.fail("C02.burn-equals-principal-retired", ctx, "step %d: stable withdraw burned %s, principal retired %s", i, dSupply.Neg(), dP.Neg())
		}
		if !dColl.Equal(fee) {
			m.fail("C02.draw-down-fee-to-collector", ctx, "step %d: stable withdraw: collector received %s, fee is %s", i, dColl, fee)
		}
	case "intcalc", "deposit", "withdraw":
		if !dSupply.IsZero() {
			m.fail("C02.interest-never-minted", ctx, "step %d: %s changed supply by %s", i, op.K, dSupply)
		}
	}
}

// ---- C03: risk limits ----

func (m *vMachine) c03Invariants(i int, op vOp) {
	c := m.c
	vk := c.App.VaultKeeper
	for pi := range m.cs.Cfg.Products {
		p := m.product(pi)
		if p.Stable {
			continue
		}
		floor, _ := sdk.NewIntFromString(p.Floor)
		ceil, _ := sdk.NewIntFromString(p.Ceiling)
		sum := sdk.ZeroInt()
		for _, v := range vk.GetVaults(c.Ctx) {
			if v.ExtendedPairVaultID != p.ID {
				continue
			}
			sum = sum.Add(v.AmountOut)
			if v.AmountOut.LT(floor) {
				m.fail("C03.debt-floor", "after:"+op.K, "step %d: open vault %d of %s has principal %s below the debt floor %s", i, v.Id, p.Name, v.AmountOut, floor)
			}
		}
		if sum.GT(ceil) {
			m.fail("C03.debt-ceiling", "after:"+op.K, "step %d: principal outstanding on %s is %s, debt ceiling %s", i, p.Name, sum, ceil)
		}
	}
}

func (m *vMachine) c03Step(i int, op vOp, p *vProduct, b, a vSnap, ok bool, err error, ain, aout bool) {
	switch op.K {
	case "create", "draw", "withdraw", "depdraw":
	default:
		return
	}
	needsPrice := !ain || !aout
	if needsPrice {
		m.r.Class("op-with-inactive-price")
		if ok {
			m.fail("C03.inactive-price-must-fail", op.K, "step %d: %s succeeded although a required oracle price is inactive", i, op.K)
		}
		return
	}
	if !ok {
		return
	}
	if !a.hasVault {
		return
	}
	// debt value = principal plus the interest accrued and booked on the vault (the
	// quantifier speaks of "accrued interest"); the closing fee is not counted, so a
	// create, which the tree checks on principal alone, is never accused.
	debt := a.vault.AmountOut.Add(a.vault.InterestAccumulated)
	ratio := m.ratio(p, a.vault.AmountIn, debt)
	if ratio == nil {
		return
	}
	minCr := decRat(sdk.MustNewDecFromStr(p.MinCr))
	// allowance: one unit in the 18th decimal of the ratio plus the 18-decimal
	// resolution of the two values it is computed from
	pin, _, pout, _ := m.prices(p)
	vin := new(big.Rat).SetFrac(new(big.Int).Mul(a.vault.AmountIn.BigInt(), new(big.Int).SetUint64(pin)), world.Pow10(m.inAsset(p).DecExp).BigInt())
	vout := new(big.Rat).SetFrac(new(big.Int).Mul(debt.BigInt(), new(big.Int).SetUint64(pout)), world.Pow10(m.outAsset(p).DecExp).BigInt())
	unit := big.NewRat(1, 1000000000000000000)
	slack := new(big.Rat).Set(unit)
	rel := new(big.Rat).Add(new(big.Rat).Quo(unit, vin), new(big.Rat).Quo(unit, vout))
	slack.Add(slack, new(big.Rat).Mul(minCr, rel))
	lim := new(big.Rat).Sub(minCr, slack)
	if ratio.Cmp(lim) < 0 {
		m.fail("C03.min-collateral-ratio", op.K, "step %d: %s succeeded leaving collateral value / debt value = %s below the minimum %s (collateral %s, principal %s, accrued interest %s)", i, op.K, ratio.FloatString(24), p.MinCr, a.vault.AmountIn, a.vault.AmountOut, a.vault.InterestAccumulated)
	}
	// boundary class: ratio within 1e-9 relative of MinCr
	diff := new(big.Rat).Sub(ratio, minCr)
	diff.Abs(diff)
	if diff.Cmp(new(big.Rat).Mul(minCr, big.NewRat(1, 1000000000))) <= 0 {
		m.bAccepted++
	}
}

// ---- running a history ----

func (m *vMachine) finish() {
	for _, k := range sortedKeys(m.c.HandlerPanics) {
		m.r.ClassN("handler-panic:"+k, m.c.HandlerPanics[k])
	}
	r := m.r
	for k, n := range m.okKinds {
		r.ClassN("ok:"+k, n)
	}
	multi := false
	for _, us := range m.usersOn {
		if len(us) >= 2 {
			multi = true
		}
	}
	ok := m.okKinds
	if m.cs.Cfg.Liq != nil {
		r.ClassN("vaults-seized", m.nSeized)
		r.ClassN("auctions-closed", m.nClosed)
		r.ClassN("auctions-closed-after->=2-bids-by->=2-bidders", m.nRichClose)
		r.ClassN("auction-restarts", m.nRestarts)
	}
	switch m.prop {
	case "C09":
		if m.nSeized > 0 {
			r.NonTrivial(m.cs)
		}
	case "C10":
		if m.nRichClose > 0 {
			r.NonTrivial(m.cs)
		}
	case "C11":
		r.ClassN("limit-bid-exits", m.nLimitExit)
		if m.nLimitOdd > 0 {
			r.NonTrivial(m.cs)
		}
	case "C01":
		if m.cs.Cfg.Liq != nil {
			if m.nSeized > 0 && m.nClosed > 0 {
				r.NonTrivial(m.cs)
			}
			break
		}
		if multi && ok["deposit"]+ok["withdraw"] > 0 && ok["draw"]+ok["repay"]+ok["depdraw"] > 0 && ok["close"] > 0 {
			r.NonTrivial(m.cs)
		}
	case "C02":
		if m.ntMint > 0 && ok["repay"]+ok["close"]+ok["smwithdraw"] > 0 {
			r.NonTrivial(m.cs)
		}
		if m.esmRegistered {
			r.Class("debt-registered-for-emergency-redemption")
		}
	case "C13":
		m.c13Finish()
	case "C19":
		// non-trivial: some external reward program paid something out while another one (or the same) was still active
		if m.xPaid && ok["xlocker"]+ok["xvault"] >= 2 {
			r.NonTrivial(m.cs)
		}
		if m.xPaid {
			r.Class("external-program-paid-out")
		}
	case "C03":
		r.ClassN("accepted-within-1e-9-of-min-cr", m.bAccepted)
		if m.bAccepted > 0 || (m.boundary > 0 && ok["create"]+ok["draw"]+ok["withdraw"]+ok["depdraw"] > 0) {
			r.NonTrivial(m.cs)
		}
	}
}

func vaultCheck(t *testing.T, prop, sub string, liq bool) {
	r := rec.New(prop, sub)
	t.Cleanup(r.Flush)
	rapid.Check(t, func(rt *rapid.T) {
		r.Guard(func() {
			r.Eval()
			cs := &vCase{Cfg: genVCfg(rt, prop, liq)}
			m := newVMachine(rt, r, prop, cs)
			hi := 45
			if liq {
				hi = 80
			}
			n := rapid.IntRange(8, hi).Draw(rt, "nops")
			for i := 0; i < n; i++ {
				op := m.genOp(rt, i)
				cs.Ops = append(cs.Ops, op)
				m.apply(i, op)
			}
			m.finish()
		})
	})
}

func vaultReplay(prop string) func(t *testing.T, r *rec.Rec, raw json.RawMessage) {
	return func(t *testing.T, r *rec.Rec, raw json.RawMessage) {
		var cs vCase
		if err := json.Unmarshal(raw, &cs); err != nil {
			t.Fatal(err)
		}
		r.Eval()
		m := newVMachine(t, r, prop, &cs)
		for i, op := range cs.Ops {
			m.apply(i, op)
		}
		m.finish()
	}
}

func TestC01_vault(t *testing.T)       { vaultCheck(t, "C01", "vault", false) }
func TestC01_liq(t *testing.T)         { vaultCheck(t, "C01", "liq", true) }
func TestC02_vault(t *testing.T)       { vaultCheck(t, "C02", "vault", false) }
func TestC03_vault(t *testing.T)       { vaultCheck(t, "C03", "vault", false) }
func TestC02_liq(t *testing.T)         { vaultCheck(t, "C02", "liq", true) }
func TestC13_vault(t *testing.T)       { vaultCheck(t, "C13", "vault", false) }
func TestC13_liquidation(t *testing.T) { vaultCheck(t, "C13", "liquidation", true) }
func TestC09_vaults(t *testing.T)      { vaultCheck(t, "C09", "vaults", true) }
func TestC10_dutch(t *testing.T)       { vaultCheck(t, "C10", "dutch", true) }
func TestC11_limit(t *testing.T)       { vaultCheck(t, "C11", "limit", true) }

func init() {
	replayers["C01.vault"] = vaultReplay("C01")
	replayers["C02.vault"] = vaultReplay("C02")
	replayers["C03.vault"] = vaultReplay("C03")
	replayers["C02.liq"] = vaultReplay("C02")
	replayers["C13.vault"] = vaultReplay("C13")
	replayers["C13.liquidation"] = vaultReplay("C13")
	replayers["C01.liq"] = vaultReplay("C01")
	replayers["C09.vaults"] = vaultReplay("C09")
	replayers["C10.dutch"] = vaultReplay("C10")
	replayers["C11.limit"] = vaultReplay("C11")
}

var _ = assettypes.ModuleName
