package checks

// C16, matching engine: the outcome of one batch match must be a function of
// the order book alone. The C05 generator (several orders per tick, batch-id
// groups, pro-rata shares that truncate to zero, pools) builds a book; the
// engine is run on six independently built copies and every order's fill,
// payment and receipt must agree. Go randomises map iteration per range
// statement, so a result that depends on it differs between two runs inside
// one process with high probability.

import (
	"encoding/json"
	"fmt"
	"strings"
	"testing"

	"pgregory.net/rapid"

	"verif/rec"
)

func c16MatchDigest(c *c05Case) (string, bool) {
	oc := c05Match(nil, c)
	var b strings.Builder
	prorata := false
	fmt.Fprintf(&b, "matched=%v price=%s quoteDiff=%s\n", oc.matched, oc.matchPrice, oc.quoteDiff)
	perTick := map[string][2]int{}
	for _, o := range oc.all {
		fmt.Fprintf(&b, "pool=%v id=%d batch=%d %s %s amt=%s open=%s paid=%s recv=%s matched=%v\n", o.Pool, o.ID, o.BatchID, o.Direction, o.Price, o.Amount,
			o.GetOpenAmount(), o.GetPaidOfferCoinAmount(), o.GetReceivedDemandCoinAmount(), o.IsMatched())
		k := fmt.Sprintf("%s/%s/%d", o.Direction, o.Price, o.BatchID)
		v := perTick[k]
		if o.Fills > 0 {
			v[0]++
		}
		if o.Fills > 0 && o.GetOpenAmount().IsPositive() {
			v[1]++
		}
		perTick[k] = v
	}
	for _, v := range perTick {
		// a batch group at one tick with several filled orders of which one is only partly filled: pro-rata sharing took place
		if v[0] >= 2 && v[1] >= 1 {
			prorata = true
		}
	}
	return b.String(), prorata
}

func c16MatchRun(t rec.TB, r *rec.Rec, c *c05Case) {
	r.Eval()
	first, prorata := c16MatchDigest(c)
	for i := 1; i < 6; i++ {
		again, _ := c16MatchDigest(c)
		if again != first {
			r.Fail(t, "C16.match-outcome-is-a-function-of-the-book", "repeat-in-process", c, "run %d of the same book differs from run 0:\n%s", i, lineDiff(first, again))
		}
	}
	if prorata {
		r.NonTrivial(c)
	}
}

func TestC16_match(t *testing.T) {
	r := rec.New("C16", "match")
	t.Cleanup(r.Flush)
	rapid.Check(t, func(rt *rapid.T) {
		r.Guard(func() { c16MatchRun(rt, r, c05Gen(rt)) })
	})
}

func init() {
	replayers["C16.match"] = func(t *testing.T, r *rec.Rec, raw json.RawMessage) {
		var c c05Case
		if err := json.Unmarshal(raw, &c); err != nil {
			t.Fatal(err)
		}
		c16MatchRun(t, r, &c)
	}
}
