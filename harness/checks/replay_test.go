package checks

import (
	"encoding/json"
	"os"
	"testing"

	"verif/rec"
)

// replayers maps "<property>.<sub>" to a function that re-executes one saved
// case (the "case" member of a failure record) without the generator library.
var replayers = map[string]func(t *testing.T, r *rec.Rec, raw json.RawMessage){}

// TestReplay re-runs the case stored in the file named by VERIF_REPLAY.
func TestReplay(t *testing.T) {
	path := os.Getenv("VERIF_REPLAY")
	if path == "" {
		t.Skip("VERIF_REPLAY not set")
	}
	b, err := os.ReadFile(path)
	if err != nil {
		t.Fatal(err)
	}
	var f struct {
		Property string          `json:"property"`
		Sub      string          `json:"sub"`
		Case     json.RawMessage `json:"case"`
	}
	if err := json.Unmarshal(b, &f); err != nil {
		t.Fatal(err)
	}
	fn, ok := replayers[f.Property+"."+f.Sub]
	if !ok {
		t.Fatalf("no replayer for %s.%s", f.Property, f.Sub)
	}
	r := rec.New(f.Property, "replay")
	r.FailSub = f.Sub
	t.Cleanup(r.Flush)
	fn(t, r, f.Case)
}
