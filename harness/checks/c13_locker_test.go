package checks

// C13 — locker and collector books. Locker operations, savings-rate changes and
// the C13 invariants for the vault world machine (vault operations generate the
// fees that the collector books and the lockers are paid from).

import (
	"fmt"

	sdk "github.com/cosmos/cosmos-sdk/types"
	authtypes "github.com/cosmos/cosmos-sdk/x/auth/types"
	"pgregory.net/rapid"

	"github.com/comdex-official/comdex/app/wasm/bindings"
	collectortypes "github.com/comdex-official/comdex/x/collector/types"
	lockertypes "github.com/comdex-official/comdex/x/locker/types"
)

func lockerAddr() sdk.AccAddress { return authtypes.NewModuleAddress(lockertypes.ModuleName) }

func (m *vMachine) userLocker(u int, lc vLockerCfg) (lockertypes.Locker, bool) {
	md, ok := m.c.App.LockerKeeper.GetUserLockerAssetMapping(m.c.Ctx, m.c.Accs[u].Addr.String(), m.apps[lc.App], m.cs.Cfg.Assets[lc.Asset].ID)
	if !ok || md.LockerId == 0 {
		return lockertypes.Locker{}, false
	}
	return m.c.App.LockerKeeper.GetLocker(m.c.Ctx, md.LockerId)
}

func (m *vMachine) genLockerOp(rt *rapid.T, i int) vOp {
	cfg := &m.cs.Cfg
	lbl := func(s string) string { return fmt.Sprintf("%s_%d", s, i) }
	op := vOp{K: rapid.SampledFrom([]string{"lcreate", "lcreate", "ldeposit", "lwithdraw", "lwithdraw", "lclose", "lcalc", "lcalc", "lsr", "lunsol"}).Draw(rt, lbl("lkind"))}
	op.L = rapid.IntRange(0, len(cfg.Lockers)-1).Draw(rt, lbl("lcfg"))
	op.U = rapid.IntRange(0, cfg.NUsers-1).Draw(rt, lbl("user"))
	lc := cfg.Lockers[op.L]
	// prefer an existing locker for operations that need one
	if op.K != "lcreate" && op.K != "lsr" && op.K != "lunsol" {
		type ul struct{ u, l int }
		var have []ul
		for u := 0; u < cfg.NUsers; u++ {
			for l, x := range cfg.Lockers {
				if _, ok := m.userLocker(u, x); ok {
					have = append(have, ul{u, l})
				}
			}
		}
		if len(have) == 0 {
			op.K = "lcreate"
		} else if rapid.IntRange(0, 19).Draw(rt, lbl("stray")) > 0 {
			x := rapid.SampledFrom(have).Draw(rt, lbl("locker"))
			op.U, op.L = x.u, x.l
			lc = cfg.Lockers[op.L]
		}
	}
	unit := int64(1)
	for j := 0; j < cfg.Assets[lc.Asset].DecExp; j++ {
		unit *= 10
	}
	switch op.K {
	case "lcreate", "ldeposit":
		op.A = sdk.NewInt(unit).MulRaw(rapid.Int64Range(1, 3000).Draw(rt, lbl("milli"))).QuoRaw(1000).String()
	case "lwithdraw":
		l, ok := m.userLocker(op.U, lc)
		a := sdk.OneInt()
		if ok {
			switch rapid.IntRange(0, 3).Draw(rt, lbl("wk")) {
			case 0:
				a = l.NetBalance
			case 1:
				a = l.NetBalance.AddRaw(1)
			default:
				a = l.NetBalance.QuoRaw(rapid.Int64Range(2, 9).Draw(rt, lbl("wq")))
			}
		}
		op.A = clampPos(a).String()
	case "lsr":
		op.A = rapid.SampledFrom([]string{"0", "0.02", "0.1", "0.5", "0.999"}).Draw(rt, lbl("rate"))
	case "lunsol":
		op.A = rapid.SampledFrom([]string{"1", "12345"}).Draw(rt, lbl("amt"))
		op.Asset = rapid.IntRange(0, 1).Draw(rt, lbl("which")) // 0 collector, 1 locker
	}
	switch op.K {
	case "ldeposit", "lwithdraw", "lclose":
		// a message is free to name the app and asset of another locker product than the one its locker belongs to
		if len(cfg.Lockers) > 1 && rapid.IntRange(0, 11).Draw(rt, lbl("otherlocker")) == 0 {
			q := rapid.IntRange(0, len(cfg.Lockers)-2).Draw(rt, lbl("q"))
			if q >= op.L {
				q++
			}
			op.Q = q + 1
		}
	}
	return op
}

func (m *vMachine) applyLocker(i int, op vOp) {
	c, cfg := m.c, &m.cs.Cfg
	lc := cfg.Lockers[op.L]
	app, asset := m.apps[lc.App], cfg.Assets[lc.Asset]
	from := c.Accs[op.U].Addr
	l, has := m.userLocker(op.U, lc)
	balBefore := c.Bal(from, asset.Denom)
	collBefore := c.Bal(collectorAddr(), asset.Denom)
	amt := sdk.ZeroInt()
	if op.A != "" && op.K != "lsr" {
		amt = mustInt(op.A)
	}
	var msg sdk.Msg
	namedApp, namedAsset := app, asset.ID // what the message names
	if op.Q > 0 && op.Q-1 < len(cfg.Lockers) {
		other := cfg.Lockers[op.Q-1]
		namedApp, namedAsset = m.apps[other.App], cfg.Assets[other.Asset].ID
	}
	mismatch := namedApp != app || namedAsset != asset.ID
	switch op.K {
	case "lcreate":
		msg = lockertypes.NewMsgCreateLockerRequest(from.String(), amt, asset.ID, app)
	case "ldeposit":
		msg = lockertypes.NewMsgDepositAssetRequest(from.String(), l.LockerId, amt, namedAsset, namedApp)
	case "lwithdraw":
		msg = lockertypes.NewMsgWithdrawAssetRequest(from.String(), l.LockerId, amt, namedAsset, namedApp)
	case "lclose":
		msg = lockertypes.NewMsgCloseLockerRequest(from.String(), namedApp, namedAsset, l.LockerId)
	case "lcalc":
		msg = lockertypes.NewMsgLockerRewardCalcRequest(from.String(), app, l.LockerId)
	case "lsr":
		look, _ := c.App.CollectorKeeper.GetCollectorLookupTable(c.Ctx, app, asset.ID)
		cctx, write := c.Ctx.CacheContext()
		err := c.App.CollectorKeeper.WasmUpdateCollectorLookupTable(cctx, &bindings.MsgUpdateCollectorLookupTable{AppID: app, AssetID: asset.ID, DebtThreshold: look.DebtThreshold,
			SurplusThreshold: look.SurplusThreshold, LotSize: look.LotSize, DebtLotSize: look.DebtLotSize, BidFactor: look.BidFactor, LSR: sdk.MustNewDecFromStr(op.A)})
		if err == nil {
			write()
			m.okKinds["lsr"]++
		}
		return
	case "lunsol":
		mod := collectortypes.ModuleName
		to := collectorAddr()
		if op.Asset == 1 {
			mod, to = lockertypes.ModuleName, lockerAddr()
		}
		if err := c.App.BankKeeper.SendCoins(c.Ctx, from, to, sdk.NewCoins(sdk.NewCoin(asset.Denom, amt))); err == nil {
			if m.unsolMod == nil {
				m.unsolMod = map[string]sdk.Int{}
			}
			k := mod + "/" + asset.Denom
			if _, ok := m.unsolMod[k]; !ok {
				m.unsolMod[k] = sdk.ZeroInt()
			}
			m.unsolMod[k] = m.unsolMod[k].Add(amt)
			m.okKinds["lunsol"]++
		}
		return
	}
	_, err := c.Deliver(msg)
	if err != nil {
		if mismatch {
			m.r.Class("message-naming-another-locker-product:refused")
		}
		if debugErrs {
			e := err.Error()
			if len(e) > 60 {
				e = e[:60]
			}
			m.r.Class("err:" + op.K + ":" + e)
		}
		return
	}
	if mismatch {
		// only the invariants (run by the caller) judge a message that names another product's app / asset
		m.r.Class("message-naming-another-locker-product:accepted:" + op.K)
		return
	}
	m.okKinds[op.K]++
	paid := collBefore.Sub(c.Bal(collectorAddr(), asset.Denom)) // savings paid out of the collector in this transaction
	if paid.IsPositive() {
		m.lockerPaid++
	}
	got := c.Bal(from, asset.Denom).Sub(balBefore)
	switch op.K {
	case "lwithdraw":
		m.lockerExit++
		if !got.Equal(amt) {
			m.fail("C13.withdraw-pays-requested", "locker-withdraw", "step %d: withdrawal of %s paid the owner %s", i, amt, got)
		}
	case "lclose":
		m.lockerExit++
		if has {
			if want := l.NetBalance.Add(paid); !got.Equal(want) {
				m.fail("C13.close-pays-net-balance", "locker-close", "step %d: close paid the owner %s, net balance %s + savings credited now %s", i, got, l.NetBalance, paid)
			}
			if _, still := c.App.LockerKeeper.GetLocker(c.Ctx, l.LockerId); still {
				m.fail("C13.close-removes-locker", "locker-close", "step %d: locker %d still exists after close", i, l.LockerId)
			}
		}
	}
}

// ---- snapshots and deltas of the collector books ----

type c13Snap struct {
	coll map[string]sdk.Int // collector custody per debt denom
	net  map[string]sdk.Int // net fees key "app/assetIdx"
}

func (m *vMachine) c13Snapshot() *c13Snap {
	c, cfg := m.c, &m.cs.Cfg
	s := &c13Snap{coll: map[string]sdk.Int{}, net: map[string]sdk.Int{}}
	for ai := cfg.NColl; ai < len(cfg.Assets); ai++ {
		a := cfg.Assets[ai]
		s.coll[a.Denom] = c.Bal(collectorAddr(), a.Denom)
		for pi, app := range m.apps {
			nf, ok := c.App.CollectorKeeper.GetNetFeeCollectedData(c.Ctx, app, a.ID)
			v := sdk.ZeroInt()
			if ok && !nf.NetFeesCollected.IsNil() {
				v = nf.NetFeesCollected
			}
			s.net[fmt.Sprintf("%d/%d", pi, ai)] = v
		}
	}
	return s
}

// c13Delta: recorded net fees move exactly with the collector's custody: what is
// paid in (fees, interest, closing fees) is booked, what is paid out (savings) is
// un-booked, and only for the app the operation belongs to.
func (m *vMachine) c13Delta(i int, op vOp, pre *c13Snap) {
	cfg := &m.cs.Cfg
	post := m.c13Snapshot()
	opApp := -1
	switch op.K {
	case "lcreate", "ldeposit", "lwithdraw", "lclose", "lcalc", "lsr":
		opApp = cfg.Lockers[op.L].App
	case "block":
		if cfg.Liq != nil {
			opApp = -2 // automatic limit-order bids close auctions inside the block hooks: any app's penalty may arrive
		}
	case "price", "unsolicited", "lunsol":
	case "bid":
		// a bid belongs to the app of the auction it is placed on (which may have been closed by it)
		opApp = -2
		id := mustInt(op.B).Uint64()
		if a, err := m.c.App.NewaucKeeper.GetAuction(m.c.Ctx, id); err == nil {
			opApp = m.appIdx(a.AppId)
		} else if h, err := m.c.App.NewaucKeeper.GetAuctionHistorical(m.c.Ctx, id); err == nil && h.AuctionHistorical != nil {
			opApp = m.appIdx(h.AuctionHistorical.AppId)
		}
	case "lbdep", "lbwd", "lbcancel", "reserve":
		opApp = -2 // limit bids and reserves are kept per asset pair, not per app
	default:
		opApp = m.product(op.P).App
	}
	for ai := cfg.NColl; ai < len(cfg.Assets); ai++ {
		a := cfg.Assets[ai]
		dColl := post.coll[a.Denom].Sub(pre.coll[a.Denom])
		if op.K == "lunsol" && op.Asset == 0 && cfg.Lockers[op.L].Asset == ai {
			dColl = dColl.Sub(mustInt(op.A)) // the unsolicited transfer itself
			if !post.coll[a.Denom].Sub(pre.coll[a.Denom]).IsPositive() {
				dColl = post.coll[a.Denom].Sub(pre.coll[a.Denom])
			}
		}
		dNetAll := sdk.ZeroInt()
		for pi := range m.apps {
			k := fmt.Sprintf("%d/%d", pi, ai)
			d := post.net[k].Sub(pre.net[k])
			dNetAll = dNetAll.Add(d)
			if opApp != -2 && pi != opApp && !d.IsZero() {
				m.fail("C13.net-fees-of-other-app-untouched", op.K, "step %d: %s of app %d changed the net fees of app %d in %s by %s", i, op.K, opApp, pi, a.Denom, d)
			}
		}
		if !dNetAll.Equal(dColl) {
			dir := "paid-in"
			if dColl.IsNegative() || dNetAll.IsNegative() {
				dir = "paid-out"
			}
			m.fail("C13.net-fees-follow-custody", op.K+","+dir, "step %d: %s moved collector custody of %s by %s but recorded net fees by %s", i, op.K, a.Denom, dColl, dNetAll)
		}
	}
}

func (m *vMachine) c13Invariants(i int, op vOp) {
	c, cfg := m.c, &m.cs.Cfg
	lk := c.App.LockerKeeper
	lockers := lk.GetLockers(c.Ctx)
	for ai := cfg.NColl; ai < len(cfg.Assets); ai++ {
		a := cfg.Assets[ai]
		depositedAll, netAll := sdk.ZeroInt(), sdk.ZeroInt()
		for pi, app := range m.apps {
			look, found := lk.GetLockerLookupTable(c.Ctx, app, a.ID)
			sum := sdk.ZeroInt()
			ids := map[uint64]bool{}
			for _, l := range lockers {
				if l.AppId == app && l.AssetDepositId == a.ID {
					sum = sum.Add(l.NetBalance)
					ids[l.LockerId] = true
				}
			}
			if found {
				dep := look.DepositedAmount
				if dep.IsNil() {
					dep = sdk.ZeroInt()
				}
				if !dep.Equal(sum) {
					m.fail("C13.deposited-amount-equals-net-balances", "after:"+op.K, "step %d: locker total of app %d in %s is %s, the lockers' net balances sum to %s", i, app, a.Denom, dep, sum)
				}
				if len(look.LockerIds) != len(ids) {
					m.fail("C13.locker-id-list", "after:"+op.K, "step %d: app %d %s lists lockers %v, live lockers %v", i, app, a.Denom, look.LockerIds, ids)
				}
				for _, id := range look.LockerIds {
					if !ids[id] {
						m.fail("C13.locker-id-list", "after:"+op.K, "step %d: app %d %s lists locker %d which does not exist", i, app, a.Denom, id)
					}
				}
				depositedAll = depositedAll.Add(dep)
				if len(ids) >= 2 {
					m.lockerMulti = true
				}
			} else if !sum.IsZero() {
				m.fail("C13.deposited-amount-equals-net-balances", "missing-table", "step %d: lockers exist for app %d %s without a lookup table", i, app, a.Denom)
			}
			nf, ok := c.App.CollectorKeeper.GetNetFeeCollectedData(c.Ctx, app, a.ID)
			if ok && !nf.NetFeesCollected.IsNil() {
				if nf.NetFeesCollected.IsNegative() {
					m.fail("C13.net-fees-non-negative", "after:"+op.K, "step %d: net fees of app %d in %s are %s", i, app, a.Denom, nf.NetFeesCollected)
				}
				netAll = netAll.Add(nf.NetFeesCollected)
			}
			_ = pi
		}
		if held := c.Bal(lockerAddr(), a.Denom); held.LT(depositedAll) {
			m.fail("C13.locker-custody-backs-deposits", "after:"+op.K, "step %d: locker custody holds %s%s, deposited totals of all apps %s", i, held, a.Denom, depositedAll)
		}
		if held := c.Bal(collectorAddr(), a.Denom); held.LT(netAll) {
			m.fail("C13.collector-custody-backs-net-fees", "after:"+op.K, "step %d: collector custody holds %s%s, recorded net fees of all apps %s", i, held, a.Denom, netAll)
		}
	}
	// "for every asset": net fees recorded under a collateral asset have to be backed as well
	for ai := 0; ai < cfg.NColl; ai++ {
		a := cfg.Assets[ai]
		netAll := sdk.ZeroInt()
		for _, app := range m.apps {
			if nf, ok := c.App.CollectorKeeper.GetNetFeeCollectedData(c.Ctx, app, a.ID); ok && !nf.NetFeesCollected.IsNil() {
				netAll = netAll.Add(nf.NetFeesCollected)
			}
		}
		held := c.Bal(collectorAddr(), a.Denom)
		if u, ok := m.unsolMod["collectorV1/"+a.Denom]; ok {
			held = held.Sub(u)
		}
		if held.LT(netAll) {
			m.fail("C13.collector-custody-backs-net-fees", "collateral-asset,after:"+op.K, "step %d: collector custody holds %s%s, net fees recorded under that asset for all apps %s", i, held, a.Denom, netAll)
		}
	}
}

func (m *vMachine) c13Finish() {
	if m.lockerMulti && m.lockerPaid > 0 && m.lockerExit > 0 {
		m.r.NonTrivial(m.cs)
	}
	m.r.ClassN("locker-ops-paying-savings", m.lockerPaid)
}

// lockerWeight: how many of ten operations are locker operations in worlds that have lockers.
func lockerWeight(prop string) int {
	if prop == "C13" {
		return 6
	}
	return 3
}
