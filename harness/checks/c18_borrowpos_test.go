package checks

// C18, borrow positions: two identical lend worlds, one borrower; in one history interest calculation is triggered at
// every intermediate point, in the other only at the end. Triggering more often must not make the borrow owe more
// (the accrual is linear in time on the same principal), beyond one unit of rounding per calculation.

import (
	"encoding/json"
	"fmt"
	"math/big"
	"testing"

	sdk "github.com/cosmos/cosmos-sdk/types"
	"pgregory.net/rapid"

	"verif/rec"
)

type c18BorrowCase struct {
	Cfg    ldCfg   `json:"cfg"`
	Pair   int     `json:"pair"`
	Coll   string  `json:"collateral"`
	Loan   int64   `json:"loan_permille_of_limit"`
	Stable bool    `json:"stable"`
	T      []int64 `json:"intervals"`
}

func c18BorrowRun(t rec.TB, r *rec.Rec, cs *c18BorrowCase) {
	r.Eval()
	run := func(often bool) (*big.Rat, bool) {
		lc := &ldCase{Cfg: cs.Cfg}
		m := newLdMachine(t, r, "C18", lc)
		p := m.pairs[cs.Pair]
		in, out := m.assetIdx(p.AssetIn), m.assetIdx(p.AssetOut)
		poolIn := 0
		for pi := range m.pools {
			if (p.IsInterPool && m.pools[pi] != p.AssetOutPoolID) || (!p.IsInterPool && m.pools[pi] == p.AssetOutPoolID) {
				poolIn = pi
			}
		}
		step := 0
		do := func(op ldOp) { m.apply(step, op); step++ }
		coll := mustInt(cs.Coll)
		// liquidity to borrow from: another user lends the debt asset in the pool the loan comes out of
		poolOut := 0
		if m.pools[1] == p.AssetOutPoolID {
			poolOut = 1
		}
		do(ldOp{K: "lend", U: 1, Pool: poolOut, Asset: out, A: "1000000000000"})
		do(ldOp{K: "lend", U: 0, Pool: poolIn, Asset: in, A: coll.String()})
		var lendID uint64
		for _, l := range m.k.GetAllLend(m.c.Ctx) {
			if l.Owner == m.c.Accs[0].Addr.String() {
				lendID = l.ID
			}
		}
		if lendID == 0 {
			return nil, false
		}
		pin, _ := m.c.App.MarketKeeper.GetTwa(m.c.Ctx, cs.Cfg.Assets[in].ID)
		pout, _ := m.c.App.MarketKeeper.GetTwa(m.c.Ctx, cs.Cfg.Assets[out].ID)
		ltv := sdk.MustNewDecFromStr(cs.Cfg.Assets[in].Ltv)
		if p.IsInterPool {
			ltv = ltv.Mul(sdk.MustNewDecFromStr(cs.Cfg.Assets[2].Ltv))
		}
		limit := coll.ToLegacyDec().MulInt64(int64(pin.Twa)).Mul(ltv).QuoInt64(int64(pout.Twa)).TruncateInt()
		loan := limit.MulRaw(cs.Loan).QuoRaw(1000)
		do(ldOp{K: "borrow", U: 0, Pair: cs.Pair, ID: lendID, A: coll.String(), B: loan.String(), Stable: cs.Stable})
		bs := m.k.GetAllBorrow(m.c.Ctx)
		if len(bs) != 1 {
			return nil, false
		}
		for i, dt := range cs.T {
			do(ldOp{K: "block", Dt: dt})
			if often || i == len(cs.T)-1 {
				do(ldOp{K: "calc", U: 0})
			}
		}
		b, ok := m.k.GetBorrow(m.c.Ctx, bs[0].ID)
		if !ok {
			return nil, false
		}
		return decRat(b.InterestAccumulated), true
	}
	often, ok1 := run(true)
	once, ok2 := run(false)
	if !ok1 || !ok2 {
		r.Class("setup-rejected")
		return
	}
	// one unit per calculation for the remainders, plus one part in 1e9
	tol := new(big.Rat).Mul(once, big.NewRat(1, 1000000000))
	tol.Add(tol, big.NewRat(int64(len(cs.T)+1), 1))
	if new(big.Rat).Sub(often, once).Cmp(tol) > 0 {
		kind := "variable"
		if cs.Stable {
			kind = "stable"
		}
		r.Fail(t, "C18.more-triggers-never-owe-more", "borrow-interest,"+kind, cs, "the borrow owes %s interest after a calculation at every point, %s after a single one (intervals %v)", often.FloatString(18), once.FloatString(18), cs.T)
	}
	if once.Cmp(big.NewRat(1, 1)) >= 0 {
		r.NonTrivial(cs)
	}
}

func TestC18_borrowpos(t *testing.T) {
	r := rec.New("C18", "borrowpos")
	t.Cleanup(r.Flush)
	rapid.Check(t, func(rt *rapid.T) {
		r.Guard(func() {
			cfg := genLdCfg(rt)
			cfg.NUsers = 2
			cfg.Fund = "1000000000000"
			cs := &c18BorrowCase{Cfg: cfg}
			// the machine's pair list is fixed by its construction: 6+6 same-pool pairs, then 3+3 cross-pool ones
			cs.Pair = rapid.IntRange(0, 17).Draw(rt, "pair")
			cs.Coll = rapid.SampledFrom([]string{"1000000000", "123456789012", "50000000"}).Draw(rt, "coll")
			cs.Loan = rapid.SampledFrom([]int64{100, 500, 900}).Draw(rt, "loan")
			cs.Stable = rapid.IntRange(0, 3).Draw(rt, "stable") == 0
			n := rapid.IntRange(2, 5).Draw(rt, "points")
			for i := 0; i < n; i++ {
				cs.T = append(cs.T, rapid.SampledFrom([]int64{6, 3600, 86400, 30 * 86400, 365 * 86400}).Draw(rt, fmt.Sprintf("dt%d", i)))
			}
			c18BorrowRun(rt, r, cs)
		})
	})
}

func init() {
	replayers["C18.borrowpos"] = func(t *testing.T, r *rec.Rec, raw json.RawMessage) {
		var cs c18BorrowCase
		if err := json.Unmarshal(raw, &cs); err != nil {
			t.Fatal(err)
		}
		c18BorrowRun(t, r, &cs)
	}
}
