package checks

// C16 — determinism: the same generated workload (all DeFi modules, delivered
// as signed transactions through DeliverTx, real Begin/EndBlock) is executed
// on two fresh application instances in this process and, for a sample of the
// workloads, in a freshly started process; after every step the SHA-256 of the
// ordered dump of all stores and every transaction response must agree.

import (
	"crypto/sha256"
	"encoding/hex"
	"encoding/json"
	"fmt"
	"os"
	"os/exec"
	"strings"
	"testing"

	"pgregory.net/rapid"

	"verif/dump"
	"verif/rec"
)

type c16Case struct {
	Kind   string   `json:"kind"` // "vault" or "liquidity"
	V      *vCase   `json:"v,omitempty"`
	L      *lCase   `json:"l,omitempty"`
	Hashes []string `json:"hashes,omitempty"` // per step: state hash + tx trace hash (filled by the first run)
}

func traceHash(tr []string) string {
	h := sha256.Sum256([]byte(strings.Join(tr, "\n")))
	return hex.EncodeToString(h[:8])
}

// c16Replay executes the case's op list on a fresh chain and returns the per-step hashes
// together with the final per-store hashes.
func c16Replay(t rec.TB, r *rec.Rec, cs *c16Case) ([]string, map[string]string, map[string]string) {
	var hs []string
	switch cs.Kind {
	case "vault":
		vc := &vCase{Cfg: cs.V.Cfg}
		m := newVMachine(t, r, "C16", vc)
		m.c.TxMode = true
		start := dump.Take(m.c.App, m.c.Ctx).PerStoreHash()
		for i, op := range cs.V.Ops {
			m.apply(i, op)
			hs = append(hs, dump.Take(m.c.App, m.c.Ctx).Hash()[:16]+"/"+traceHash(m.c.TxTrace))
		}
		return hs, start, dump.Take(m.c.App, m.c.Ctx).PerStoreHash()
	default:
		lc := &lCase{Cfg: cs.L.Cfg}
		m := newLMachine(t, r, "C16", lc)
		m.c.TxMode = true
		start := dump.Take(m.c.App, m.c.Ctx).PerStoreHash()
		for i, op := range cs.L.Ops {
			m.apply(i, op)
			hs = append(hs, dump.Take(m.c.App, m.c.Ctx).Hash()[:16]+"/"+traceHash(m.c.TxTrace))
		}
		m.finish()
		return hs, start, dump.Take(m.c.App, m.c.Ctx).PerStoreHash()
	}
}

func c16Compare(t rec.TB, r *rec.Rec, cs *c16Case, a, b []string, where string) {
	for i := range a {
		if i >= len(b) || a[i] != b[i] {
			op := ""
			if cs.Kind == "vault" && i < len(cs.V.Ops) {
				op = cs.V.Ops[i].K
			} else if cs.Kind == "liquidity" && i < len(cs.L.Ops) {
				op = cs.L.Ops[i].K
			}
			got := "<missing>"
			if i < len(b) {
				got = b[i]
			}
			r.Fail(t, "C16.replay-yields-identical-state-and-results", where+","+cs.Kind+",after:"+op, cs, "step %d (%s): state/tx-result digest %s in the first execution, %s in the %s", i, op, a[i], got, where)
		}
	}
}

func TestC16_replay(t *testing.T) {
	r := rec.New("C16", "replay")
	var saved []*c16Case
	t.Cleanup(func() {
		defer r.Flush()
		// a sample of the workloads is re-executed in a freshly started process
		if len(saved) == 0 || os.Getenv("VERIF_C16_NOCHILD") != "" {
			return
		}
		f, err := os.CreateTemp("", "verif-c16-*.json")
		if err != nil {
			return
		}
		defer os.Remove(f.Name())
		json.NewEncoder(f).Encode(saved)
		f.Close()
		cmd := exec.Command(os.Args[0], "-test.run", "^TestC16Child$", "-test.timeout", "1200s")
		cmd.Env = append(os.Environ(), "VERIF_C16_CHILD="+f.Name(), "VERIF_OUT=")
		out, err := cmd.CombinedOutput()
		r.ClassN("workloads-replayed-in-fresh-process", len(saved))
		if err != nil {
			i := strings.Index(string(out), "C16-CHILD-DIVERGENCE")
			msg := string(out)
			if i >= 0 {
				msg = msg[i:]
			}
			if len(msg) > 1500 {
				msg = msg[:1500]
			}
			func() {
				defer func() { recover() }()
				r.Fail(t, "C16.replay-yields-identical-state-and-results", "fresh-process", nil, "%s", msg)
			}()
			t.Fail()
		}
	})
	rapid.Check(t, func(rt *rapid.T) {
		r.Guard(func() {
			r.Eval()
			cs := &c16Case{Kind: rapid.SampledFrom([]string{"vault", "liquidity", "liquidity"}).Draw(rt, "kind")}
			var first []string
			var startStores, endStores map[string]string
			if cs.Kind == "vault" {
				vc := &vCase{Cfg: genVCfg(rt, "C13", true)}
				m := newVMachine(rt, r, "C16", vc)
				m.c.TxMode = true
				startStores = dump.Take(m.c.App, m.c.Ctx).PerStoreHash()
				n := rapid.IntRange(20, 70).Draw(rt, "nops")
				for i := 0; i < n; i++ {
					op := m.genOp(rt, i)
					vc.Ops = append(vc.Ops, op)
					m.apply(i, op)
					first = append(first, dump.Take(m.c.App, m.c.Ctx).Hash()[:16]+"/"+traceHash(m.c.TxTrace))
				}
				endStores = dump.Take(m.c.App, m.c.Ctx).PerStoreHash()
				cs.V = vc
				r.ClassN("auctions-closed", m.nClosed)
			} else {
				lc := &lCase{Cfg: genLCfg(rt)}
				m := newLMachine(rt, r, "C16", lc)
				m.c.TxMode = true
				startStores = dump.Take(m.c.App, m.c.Ctx).PerStoreHash()
				n := rapid.IntRange(20, 70).Draw(rt, "nops")
				for i := 0; i < n; i++ {
					op := m.genOp(rt, i)
					lc.Ops = append(lc.Ops, op)
					m.apply(i, op)
					first = append(first, dump.Take(m.c.App, m.c.Ctx).Hash()[:16]+"/"+traceHash(m.c.TxTrace))
				}
				endStores = dump.Take(m.c.App, m.c.Ctx).PerStoreHash()
				cs.L = lc
				r.ClassN("matched-order-batches", m.matched)
				m.finish()
			}
			second, _, _ := c16Replay(rt, r, cs)
			c16Compare(rt, r, cs, first, second, "second in-process instance")
			changed := 0
			for s, h := range endStores {
				if startStores[s] != h {
					changed++
				}
			}
			r.Class(fmt.Sprintf("stores-changed:%d", changed))
			if changed >= 5 {
				r.NonTrivial(cs)
			}
			if len(saved) < 12 {
				cs.Hashes = first
				saved = append(saved, cs)
			}
		})
	})
}

// TestC16Child runs in a freshly started process: it re-executes the workloads
// saved by the parent and compares every step's digest.
func TestC16Child(t *testing.T) {
	path := os.Getenv("VERIF_C16_CHILD")
	if path == "" {
		t.Skip("not a child")
	}
	b, err := os.ReadFile(path)
	if err != nil {
		t.Fatal(err)
	}
	var cases []*c16Case
	if err := json.Unmarshal(b, &cases); err != nil {
		t.Fatal(err)
	}
	r := rec.New("C16", "child")
	for n, cs := range cases {
		got, _, _ := c16Replay(t, r, cs)
		for i := range cs.Hashes {
			if i >= len(got) || got[i] != cs.Hashes[i] {
				t.Fatalf("C16-CHILD-DIVERGENCE workload %d (%s) step %d: parent %s, fresh process %v", n, cs.Kind, i, cs.Hashes[i], got[min(i, len(got)-1)])
			}
		}
	}
}

func min(a, b int) int {
	if a < b {
		return a
	}
	return b
}

func init() {
	replayers["C16.replay"] = func(t *testing.T, r *rec.Rec, raw json.RawMessage) {
		var cs c16Case
		if err := json.Unmarshal(raw, &cs); err != nil {
			t.Fatal(err)
		}
		a, _, _ := c16Replay(t, r, &cs)
		b, _, _ := c16Replay(t, r, &cs)
		c16Compare(t, r, &cs, a, b, "second in-process instance")
	}
}
