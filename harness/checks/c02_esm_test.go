package checks

// C02 across an emergency shutdown: the shutdown of an app is executed (the records ExecuteESM writes), blocks carry
// it through the price snapshot and the cool-off, the shutdown hook closes the app's vaults and stable-mint vaults and
// registers their principal as debt to be redeemed, and holders redeem (burn) debt token against the pooled collateral.

import (
	"fmt"
	"time"

	sdk "github.com/cosmos/cosmos-sdk/types"
	"pgregory.net/rapid"

	esmtypes "github.com/comdex-official/comdex/x/esm/types"
)

const c02CoolOff = 60 // seconds

func (m *vMachine) c02EsmGenOp(rt *rapid.T, i int) (vOp, bool) {
	c, cfg := m.c, &m.cs.Cfg
	lbl := func(s string) string { return fmt.Sprintf("%s_%d", s, i) }
	var running, done []int
	for ai, app := range m.apps {
		if st, ok := c.App.EsmKeeper.GetESMStatus(c.Ctx, app); ok && st.Status {
			if st.ShareCalculation {
				done = append(done, ai)
			} else {
				running = append(running, ai)
			}
		}
	}
	if len(running) > 0 && rapid.IntRange(0, 1).Draw(rt, lbl("esmblock")) == 0 {
		// one block for the snapshot, one past the cool-off for the set-up
		return vOp{K: "block", Dt: rapid.SampledFrom([]int64{5, c02CoolOff + 1, 3600}).Draw(rt, lbl("esmdt"))}, true
	}
	switch rapid.IntRange(0, 19).Draw(rt, lbl("esmkind")) {
	case 0:
		if len(running)+len(done) < cfg.NApps {
			return vOp{K: "esm", Asset: rapid.IntRange(0, cfg.NApps-1).Draw(rt, lbl("app"))}, true
		}
	case 1, 2, 3:
		if len(done) > 0 {
			ai := done[rapid.IntRange(0, len(done)-1).Draw(rt, lbl("app"))]
			op := vOp{K: "redeem", Asset: ai, U: rapid.IntRange(0, cfg.NUsers-1).Draw(rt, lbl("user"))}
			// a debt asset of that app
			var outs []int
			for pi, p := range cfg.Products {
				if p.App == ai {
					outs = append(outs, pi)
				}
			}
			if len(outs) == 0 {
				return vOp{}, false
			}
			op.P = outs[rapid.IntRange(0, len(outs)-1).Draw(rt, lbl("product"))]
			d := m.outAsset(m.product(op.P))
			have := c.Bal(c.Accs[op.U].Addr, d.Denom)
			reg, _ := c.App.EsmKeeper.GetAssetToAmount(c.Ctx, m.apps[ai], d.ID)
			if reg.Amount.IsNil() {
				reg.Amount = sdk.ZeroInt()
			}
			var amt sdk.Int
			switch rapid.IntRange(0, 4).Draw(rt, lbl("rk")) {
			case 0:
				amt = sdk.OneInt()
			case 1:
				amt = have
			case 2:
				amt = reg.Amount
			case 3:
				amt = reg.Amount.AddRaw(1)
			default:
				amt = have.QuoRaw(rapid.Int64Range(2, 9).Draw(rt, lbl("rq")))
			}
			op.A = clampPos(amt).String()
			return op, true
		}
	}
	return vOp{}, false
}

func (m *vMachine) c02EsmApply(i int, op vOp) {
	c := m.c
	app := m.apps[op.Asset]
	switch op.K {
	case "esm":
		if st, ok := c.App.EsmKeeper.GetESMStatus(c.Ctx, app); ok && st.Status {
			return
		}
		// what governance (trigger parameters) and ExecuteESM (status) write
		// governance fixes the rates of the assets of the app's stable-mint products (both sides), as the shutdown's
		// set-up for stable-mint vaults requires; in some worlds it forgets to (that set-up then never completes)
		params := esmtypes.ESMTriggerParams{AppId: app, TargetValue: sdk.NewInt64Coin("uharbor", 1), CoolOffPeriod: c02CoolOff}
		if cfg := &m.cs.Cfg; cfg.Seed%2 == 0 {
			seen := map[uint64]bool{}
			for pi, p := range cfg.Products {
				if p.App != op.Asset || !p.Stable {
					continue
				}
				for _, a := range []*vAsset{m.inAsset(m.product(pi)), m.outAsset(m.product(pi))} {
					if !seen[a.ID] {
						seen[a.ID] = true
						params.AssetsRates = append(params.AssetsRates, esmtypes.DebtAssetsRates{AssetID: a.ID, Rates: 1000000})
					}
				}
			}
		}
		c.App.EsmKeeper.SetESMTriggerParams(c.Ctx, params)
		now := c.Ctx.BlockTime()
		c.App.EsmKeeper.SetESMStatus(c.Ctx, esmtypes.ESMStatus{AppId: app, Executor: c.Accs[0].Addr.String(), Status: true, StartTime: now, EndTime: now.Add(c02CoolOff * time.Second)})
		m.okKinds["esm"]++
	case "redeem":
		d := m.outAsset(m.product(op.P))
		from := c.Accs[op.U].Addr
		supply := c.Supply(d.Denom)
		reg, _ := c.App.EsmKeeper.GetAssetToAmount(c.Ctx, app, d.ID)
		if reg.Amount.IsNil() {
			reg.Amount = sdk.ZeroInt()
		}
		_, err := c.Deliver(esmtypes.NewMsgCollateralRedemption(app, sdk.NewCoin(d.Denom, mustInt(op.A)), from))
		if err != nil {
			if !c.Supply(d.Denom).Equal(supply) {
				m.fail("C02.rejected-changes-supply", "redeem", "step %d: rejected redemption changed the supply of %s", i, d.Denom)
			}
			return
		}
		m.okKinds["redeem"]++
		after, _ := c.App.EsmKeeper.GetAssetToAmount(c.Ctx, app, d.ID)
		burned, retired := supply.Sub(c.Supply(d.Denom)), reg.Amount.Sub(after.Amount)
		if !burned.Equal(retired) || !burned.Equal(mustInt(op.A)) {
			m.fail("C02.burn-equals-principal-retired", "redeem", "step %d: redemption of %s%s burned %s and retired %s of the registered debt", i, op.A, d.Denom, burned, retired)
		}
	}
}
