package checks

// C14 — emergency controls fail closed. A generated history on the vault /
// locker / liquidation / auction world yields a reachable base state. One
// control setting is generated (circuit breaker of one app, emergency shutdown
// of one app before or after the end of its cool-off period, or a subset of
// oracle feeds inactive) and a set of candidate messages is generated relative
// to the base state with the machine's own state-relative generator. Every
// candidate is executed twice on branches of the base state: with the control
// off (control) and with the control on. The matrix of the property decides
// which candidates must fail under the control; a candidate only counts as
// non-trivial when it succeeds with the control off, i.e. when the guard is
// the only thing that stops it. Sweeps are run the same way: after a
// generated price crash the liquidation sweep (and the surplus / debt auction
// starter) runs on a branch with and without the control, and under the
// control no locked vault / auction may appear for the controlled app (or,
// for inactive feeds, for a vault that needs the inactive price).

import (
	"encoding/json"
	"fmt"
	"testing"
	"time"

	sdk "github.com/cosmos/cosmos-sdk/types"
	"pgregory.net/rapid"

	"github.com/comdex-official/comdex/x/esm"
	esmtypes "github.com/comdex-official/comdex/x/esm/types"
	liqv2types "github.com/comdex-official/comdex/x/liquidationsV2/types"
	lockertypes "github.com/comdex-official/comdex/x/locker/types"
	vaulttypes "github.com/comdex-official/comdex/x/vault/types"
	abci "github.com/cometbft/cometbft/abci/types"

	"github.com/comdex-official/comdex/app/wasm/bindings"

	"verif/rec"
	"verif/world"
)

type c14Ctl struct {
	Kind     string `json:"kind"` // breaker | esm | inactive | esm-inactive | breaker-esm
	App      int    `json:"app"`
	After    bool   `json:"after_cool_off,omitempty"`
	Inactive []int  `json:"inactive_assets,omitempty"` // indices into cfg.Assets
	Crash    []int  `json:"crash_assets,omitempty"`    // collateral feeds crashed to 10% before the sweep comparison
}

type c14Case struct {
	V     *vCase `json:"v"`
	Ctl   c14Ctl `json:"control"`
	Cands []vOp  `json:"candidates"`
}

// c14Msg builds the message of a candidate operation against the machine's current state.
// It returns the app index the message acts on and the product it names (-1: none).
func c14Msg(m *vMachine, op vOp) (msg sdk.Msg, app int, prod int, ok bool) {
	c, cfg := m.c, &m.cs.Cfg
	from := c.Accs[op.U].Addr
	amt := sdk.ZeroInt()
	if op.A != "" {
		amt = mustInt(op.A)
	}
	switch op.K {
	case "lcreate", "ldeposit", "lwithdraw", "lclose":
		lc := cfg.Lockers[op.L]
		appID, asset := m.apps[lc.App], cfg.Assets[lc.Asset]
		l, has := m.userLocker(op.U, lc)
		if !has && op.K != "lcreate" {
			return nil, 0, 0, false
		}
		switch op.K {
		case "lcreate":
			msg = lockertypes.NewMsgCreateLockerRequest(from.String(), amt, asset.ID, appID)
		case "ldeposit":
			msg = lockertypes.NewMsgDepositAssetRequest(from.String(), l.LockerId, amt, asset.ID, appID)
		case "lwithdraw":
			msg = lockertypes.NewMsgWithdrawAssetRequest(from.String(), l.LockerId, amt, asset.ID, appID)
		case "lclose":
			msg = lockertypes.NewMsgCloseLockerRequest(from.String(), appID, asset.ID, l.LockerId)
		}
		return msg, lc.App, -1, true
	case "liqmsg":
		id := mustInt(op.A).Uint64()
		v, found := c.App.VaultKeeper.GetVault(c.Ctx, id)
		if !found {
			return nil, 0, 0, false
		}
		pi := m.productIdxByID(v.ExtendedPairVaultID)
		if pi < 0 {
			return nil, 0, 0, false
		}
		return liqv2types.NewMsgLiquidateInternalKeeperRequest(from, 0, id), m.product(pi).App, pi, true
	case "extliq":
		// liquidation of an external position: opens a dutch auction at the oracle prices of both assets
		// (of the collateral only when the debt asset is priced at par)
		p := m.product(op.P)
		return liqv2types.NewMsgLiquidateExternalKeeperRequest(from, m.apps[p.App], c.Accs[(op.U+1)%cfg.NUsers].Addr.String(),
			sdk.NewCoin(m.inAsset(p).Denom, mustInt(op.A)), sdk.NewCoin(m.outAsset(p).Denom, mustInt(op.B)), m.inAsset(p).ID, m.outAsset(p).ID, !p.OutOracle), p.App, op.P, true
	case "create", "deposit", "withdraw", "draw", "repay", "close", "depdraw", "smcreate", "smdeposit", "smwithdraw":
	default:
		return nil, 0, 0, false
	}
	p := m.product(op.P)
	appID := m.apps[p.App]
	v, hasV := m.userVault(op.U, op.P)
	sv, hasSV := m.stableVault(op.P)
	switch op.K {
	case "create":
		msg = vaulttypes.NewMsgCreateRequest(from, appID, p.ID, amt, mustInt(op.B))
	case "smcreate":
		msg = vaulttypes.NewMsgCreateStableMintRequest(from, appID, p.ID, amt)
	case "smdeposit", "smwithdraw":
		if !hasSV {
			return nil, 0, 0, false
		}
		if op.K == "smdeposit" {
			msg = vaulttypes.NewMsgDepositStableMintRequest(from, appID, p.ID, amt, sv.Id)
		} else {
			msg = vaulttypes.NewMsgWithdrawStableMintRequest(from, appID, p.ID, amt, sv.Id)
		}
	default:
		if !hasV {
			return nil, 0, 0, false
		}
		switch op.K {
		case "deposit":
			msg = vaulttypes.NewMsgDepositRequest(from, appID, p.ID, v.Id, amt)
		case "withdraw":
			msg = vaulttypes.NewMsgWithdrawRequest(from, appID, p.ID, v.Id, amt)
		case "draw":
			msg = vaulttypes.NewMsgDrawRequest(from, appID, p.ID, v.Id, amt)
		case "repay":
			msg = vaulttypes.NewMsgRepayRequest(from, appID, p.ID, v.Id, amt)
		case "close":
			msg = vaulttypes.NewMsgLiquidateRequest(from, appID, p.ID, v.Id)
		case "depdraw":
			msg = vaulttypes.NewMsgDepositAndDrawRequest(from, appID, p.ID, v.Id, amt)
		}
	}
	return msg, p.App, op.P, true
}

// the matrix of the property
var (
	// breaker: nothing opens, enlarges or draws from a vault or locker; repay / close / withdraw are refused
	c14BreakerRefused = map[string]bool{"create": true, "deposit": true, "withdraw": true, "draw": true, "repay": true, "close": true, "depdraw": true,
		"smcreate": true, "smdeposit": true, "smwithdraw": true, "lcreate": true, "ldeposit": true}
	// shutdown: nothing mints new debt
	c14EsmMints = map[string]bool{"create": true, "draw": true, "depdraw": true, "smcreate": true, "smdeposit": true}
	// operations that need the oracle price of the collateral (and of the debt asset when the product prices it by oracle)
	c14NeedsPrice = map[string]bool{"create": true, "withdraw": true, "draw": true, "depdraw": true, "extliq": true}
)

// c14Apply installs the control on the machine's current context.
func c14Apply(m *vMachine, ctl c14Ctl) {
	c, cfg := m.c, &m.cs.Cfg
	switch ctl.Kind {
	case "breaker":
		if err := c.App.EsmKeeper.SetKillSwitchData(c.Ctx, esmtypes.KillSwitchParams{AppId: m.apps[ctl.App], BreakerEnable: true}); err != nil {
			panic(err)
		}
	case "esm":
		// what ExecuteESM writes (x/esm/keeper/keeper.go:163-171)
		st := esmtypes.ESMStatus{AppId: m.apps[ctl.App], Executor: c.Accs[0].Addr.String(), Status: true}
		if ctl.After {
			st.StartTime, st.EndTime = c.Ctx.BlockTime().Add(-2*time.Hour), c.Ctx.BlockTime().Add(-time.Hour)
		} else {
			st.StartTime, st.EndTime = c.Ctx.BlockTime().Add(-time.Hour), c.Ctx.BlockTime().Add(time.Hour)
		}
		c.App.EsmKeeper.SetESMStatus(c.Ctx, st)
	case "breaker-esm":
		// both controls at once: emergency shutdown executed (snapshot taken by its hook) and the breaker on
		c14Apply(m, c14Ctl{Kind: "esm", App: ctl.App, After: ctl.After})
		func() {
			defer func() { _ = recover() }()
			esm.BeginBlocker(c.Ctx, abci.RequestBeginBlock{}, c.App.EsmKeeper, c.App.AssetKeeper)
		}()
		c14Apply(m, c14Ctl{Kind: "breaker", App: ctl.App})
	case "inactive":
		for _, ai := range ctl.Inactive {
			tw, _ := c.App.MarketKeeper.GetTwa(c.Ctx, cfg.Assets[ai].ID)
			c.SetPrice(cfg.Assets[ai].ID, tw.Twa, false)
		}
	case "esm-inactive":
		// feeds go off, emergency shutdown is executed, and the shutdown hook has run (it takes the price snapshot that
		// vault checks use from then on, of active feeds only): an operation that needs an inactive feed must still fail
		for _, ai := range ctl.Inactive {
			tw, _ := c.App.MarketKeeper.GetTwa(c.Ctx, cfg.Assets[ai].ID)
			c.SetPrice(cfg.Assets[ai].ID, tw.Twa, false)
		}
		st := esmtypes.ESMStatus{AppId: m.apps[ctl.App], Executor: c.Accs[0].Addr.String(), Status: true,
			StartTime: c.Ctx.BlockTime().Add(-time.Minute), EndTime: c.Ctx.BlockTime().Add(time.Hour)}
		c.App.EsmKeeper.SetESMStatus(c.Ctx, st)
		func() {
			defer func() { _ = recover() }()
			esm.BeginBlocker(c.Ctx, abci.RequestBeginBlock{}, c.App.EsmKeeper, c.App.AssetKeeper)
		}()
	}
}

func (m *vMachine) c14NeedsInactive(pi int, ctl c14Ctl) bool {
	p := m.product(pi)
	for _, ai := range ctl.Inactive {
		if ai == p.In || (ai == p.Out && p.OutOracle) {
			return true
		}
	}
	return false
}

// branch runs f on a throw-away branch of the machine's chain state.
func (m *vMachine) branch(f func()) {
	save := m.c.Ctx
	cctx, _ := m.c.Ctx.CacheContext()
	m.c.Ctx = cctx
	defer func() { m.c.Ctx = save }()
	f()
}

func (m *vMachine) debtSupply(app int) map[string]sdk.Int {
	out := map[string]sdk.Int{}
	for _, p := range m.cs.Cfg.Products {
		if p.App == app {
			d := m.cs.Cfg.Assets[p.Out].Denom
			out[d] = m.c.Supply(d)
		}
	}
	return out
}

func c14Run(t rec.TB, r *rec.Rec, cs *c14Case, m *vMachine) {
	c, cfg := m.c, &m.cs.Cfg
	ctl := cs.Ctl
	for ci, op := range cs.Cands {
		msg, app, prod, ok := c14Msg(m, op)
		if !ok || msg.ValidateBasic() != nil {
			continue
		}
		var errOff, errOn error
		var mintedOn bool
		var lockedOn, lockedOff int
		countLocked := func() int {
			n := 0
			for _, lv := range c.App.NewliqKeeper.GetLockedVaults(c.Ctx) {
				if lv.AppId == m.apps[app] {
					n++
				}
			}
			return n
		}
		m.branch(func() {
			n := countLocked()
			_, errOff = c.Deliver(msg)
			lockedOff = countLocked() - n
		})
		m.branch(func() {
			c14Apply(m, ctl)
			pre := m.debtSupply(app)
			n := countLocked()
			_, errOn = c.Deliver(msg)
			lockedOn = countLocked() - n
			for d, a := range m.debtSupply(app) {
				if a.GT(pre[d]) {
					mintedOn = true
				}
			}
		})
		ctxs := fmt.Sprintf("%s/%s", ctl.Kind, op.K)
		must := false
		breakerOn := ctl.Kind == "breaker" || ctl.Kind == "breaker-esm"
		if op.K == "liqmsg" && (breakerOn && app == ctl.App || ctl.Kind == "inactive" && m.c14NeedsInactive(prod, ctl)) {
			// a liquidation requested by message is the sweep's per-vault step: it may not lock the vault
			if lockedOff > 0 {
				r.Class("guard-decides:" + ctxs)
				r.NonTrivialSig(rec.Sig([]interface{}{cs.V, ctl, op}), func() interface{} {
					return map[string]interface{}{"control": ctl, "candidate": op}
				})
			}
			if lockedOn > 0 {
				r.Fail(t, "C14.liquidation-started-under-control", ctxs, cs, "candidate %d: liquidation message for vault %s locked it although control %+v is in force", ci, op.A, ctl)
			}
			continue
		}
		switch ctl.Kind {
		case "breaker":
			must = app == ctl.App && c14BreakerRefused[op.K]
		case "breaker-esm":
			// the breaker's refusals do not depend on the shutdown state, and the shutdown's own still apply
			must = app == ctl.App && (c14BreakerRefused[op.K] || c14EsmMints[op.K] || (op.K == "withdraw" && ctl.After))
			if app == ctl.App && errOn == nil && mintedOn {
				r.Fail(t, "C14.debt-minted-after-emergency-shutdown", ctxs, cs, "candidate %d (%s by user %d, product %d): supply of a debt asset of the shut-down app grew", ci, op.K, op.U, prod)
			}
		case "esm":
			must = app == ctl.App && (c14EsmMints[op.K] || (op.K == "withdraw" && ctl.After))
			if app == ctl.App && errOn == nil && mintedOn {
				r.Fail(t, "C14.debt-minted-after-emergency-shutdown", ctxs, cs, "candidate %d (%s by user %d, product %d): supply of a debt asset of the shut-down app grew", ci, op.K, op.U, prod)
			}
		case "inactive":
			must = prod >= 0 && c14NeedsPrice[op.K] && m.c14NeedsInactive(prod, ctl)
		case "esm-inactive":
			must = prod >= 0 && c14NeedsPrice[op.K] && m.c14NeedsInactive(prod, ctl)
			must = must || (app == ctl.App && c14EsmMints[op.K])
		}
		if !must {
			r.Class("not-covered-by-control:" + ctl.Kind)
			continue
		}
		if errOff == nil {
			r.NonTrivialSig(rec.Sig([]interface{}{cs.V, ctl, op}), func() interface{} {
				return map[string]interface{}{"control": ctl, "candidate": op}
			})
			r.Class("guard-decides:" + ctxs)
		} else {
			r.Class("fails-anyway:" + ctxs)
		}
		if errOn == nil {
			r.Fail(t, "C14.message-accepted-under-control", ctxs, cs, "candidate %d (%s by user %d on product %d, app %d) succeeded although control %+v is in force (without the control: err=%v)",
				ci, op.K, op.U, prod, app, ctl, errOff)
		}
	}

	// ---- sweeps ----
	type lockedSet map[uint64]string
	locked := func() lockedSet {
		out := lockedSet{}
		for _, lv := range c.App.NewliqKeeper.GetLockedVaults(c.Ctx) {
			out[lv.LockedVaultId] = fmt.Sprintf("app=%d pair=%d type=%s orig=%d", lv.AppId, lv.ExtendedPairId, lv.InitiatorType, lv.OriginalVaultId)
		}
		return out
	}
	sweep := func(on bool) (fresh []string, freshApp map[uint64]int, freshPairs map[uint64]int, english map[uint64]int) {
		freshApp, freshPairs, english = map[uint64]int{}, map[uint64]int{}, map[uint64]int{}
		m.branch(func() {
			// governance arms a surplus or a debt auction for the collectors of the controlled app: thresholds
			// such that the next sweep would start one (x/liquidationsV2/keeper/liquidate.go:475-535)
			if ctl.Kind == "breaker" || ctl.Kind == "breaker-esm" {
				for _, lc := range cfg.Lockers {
					if lc.App != ctl.App {
						continue
					}
					app, asset := m.apps[lc.App], cfg.Assets[lc.Asset]
					look, ok := c.App.CollectorKeeper.GetCollectorLookupTable(c.Ctx, app, asset.ID)
					nf, ok2 := c.App.CollectorKeeper.GetNetFeeCollectedData(c.Ctx, app, asset.ID)
					if !ok || !ok2 {
						continue
					}
					surplus := nf.NetFeesCollected.GTE(sdk.NewInt(2000))
					look.LotSize, look.DebtLotSize = sdk.NewInt(1000), sdk.NewInt(1000)
					if surplus {
						look.SurplusThreshold, look.DebtThreshold = sdk.ZeroInt(), sdk.ZeroInt()
					} else {
						look.SurplusThreshold, look.DebtThreshold = world.Pow10(40), world.Pow10(30)
					}
					if err := c.App.CollectorKeeper.WasmUpdateCollectorLookupTable(c.Ctx, &bindings.MsgUpdateCollectorLookupTable{AppID: app, AssetID: asset.ID, DebtThreshold: look.DebtThreshold,
						SurplusThreshold: look.SurplusThreshold, LotSize: look.LotSize, DebtLotSize: look.DebtLotSize, BidFactor: look.BidFactor, LSR: look.LockerSavingRate}); err != nil {
						panic(err)
					}
					if err := c.App.CollectorKeeper.WasmSetAuctionMappingForApp(c.Ctx, &bindings.MsgSetAuctionMappingForApp{AppID: app, AssetIDs: asset.ID,
						IsSurplusAuctions: surplus, IsDebtAuctions: !surplus, AssetOutOraclePrices: false, AssetOutPrices: 1000000}); err != nil {
						panic(err)
					}
				}
			}
			for _, ai := range ctl.Crash {
				tw, _ := c.App.MarketKeeper.GetTwa(c.Ctx, cfg.Assets[ai].ID)
				c.SetPrice(cfg.Assets[ai].ID, tw.Twa/10+1, tw.IsPriceActive)
			}
			if on {
				c14Apply(m, ctl)
			}
			pre := locked()
			func() {
				defer func() {
					if p := recover(); p != nil {
						r.Class("sweep-panicked")
					}
				}()
				_ = c.App.NewliqKeeper.Liquidate(c.Ctx)
			}()
			for _, lv := range c.App.NewliqKeeper.GetLockedVaults(c.Ctx) {
				if _, was := pre[lv.LockedVaultId]; !was {
					fresh = append(fresh, fmt.Sprintf("locked vault %d app=%d pair=%d type=%s", lv.LockedVaultId, lv.AppId, lv.ExtendedPairId, lv.InitiatorType))
					if lv.InitiatorType == "surplus" || lv.InitiatorType == "debt" {
						english[lv.AppId]++
						continue
					}
					freshApp[lv.AppId]++
					freshPairs[lv.ExtendedPairId]++
				}
			}
		})
		return
	}
	_, offApp, offPairs, offEnglish := sweep(false)
	onFresh, onApp, onPairs, onEnglish := sweep(true)
	switch ctl.Kind {
	case "breaker", "esm", "breaker-esm":
		// the shutdown blocks the vault sweep as well (liquidate.go:88-92); the property names the breaker
		id := m.apps[ctl.App]
		breakerOn := ctl.Kind == "breaker" || ctl.Kind == "breaker-esm"
		if offApp[id] > 0 {
			r.Class("sweep-guard-decides:" + ctl.Kind)
			r.NonTrivialSig(rec.Sig([]interface{}{cs.V, ctl, "sweep"}), func() interface{} {
				return map[string]interface{}{"control": ctl, "sweep_without_control_locks": offApp[id]}
			})
		}
		if breakerOn && offEnglish[id] > 0 {
			r.Class("sweep-guard-decides:surplus-or-debt-auction")
			r.NonTrivialSig(rec.Sig([]interface{}{cs.V, ctl, "english"}), func() interface{} {
				return map[string]interface{}{"control": ctl, "surplus_or_debt_auctions_without_control": offEnglish[id]}
			})
		}
		if breakerOn && onEnglish[id] > 0 {
			r.Fail(t, "C14.surplus-or-debt-auction-started-under-breaker", "sweep", cs, "with the breaker of app %d on, %d surplus/debt auction(s) were started for it: %v", id, onEnglish[id], onFresh)
		}
		if breakerOn && onApp[id] > 0 {
			r.Fail(t, "C14.sweep-liquidates-under-breaker", "sweep", cs, "with the breaker of app %d on, the sweep locked %d vault(s) of that app: %v", id, onApp[id], onFresh)
		}
	case "inactive", "esm-inactive":
		for pi := range cfg.Products {
			if !m.c14NeedsInactive(pi, ctl) {
				continue
			}
			pid := m.product(pi).ID
			if offPairs[pid] > 0 {
				r.Class("sweep-guard-decides:inactive")
				r.NonTrivialSig(rec.Sig([]interface{}{cs.V, ctl, "sweep", pi}), func() interface{} {
					return map[string]interface{}{"control": ctl, "product": pi, "sweep_without_control_locks": offPairs[pid]}
				})
			}
			if onPairs[pid] > 0 {
				r.Fail(t, "C14.sweep-liquidates-with-inactive-price", "sweep", cs, "product %d needs an inactive feed (%v) but the sweep locked %d of its vaults: %v", pi, ctl.Inactive, onPairs[pid], onFresh)
			}
		}
	}
}

func c14IsMsgKind(k string) bool {
	switch k {
	case "create", "deposit", "withdraw", "draw", "repay", "close", "depdraw", "smcreate", "smdeposit", "smwithdraw", "lcreate", "ldeposit", "lwithdraw", "lclose", "liqmsg", "extliq":
		return true
	}
	return false
}

func TestC14_controls(t *testing.T) {
	r := rec.New("C14", "controls")
	t.Cleanup(r.Flush)
	rapid.Check(t, func(rt *rapid.T) {
		r.Guard(func() {
			r.Eval()
			vc := &vCase{Cfg: genVCfg(rt, "C13", true)}
			cs := &c14Case{V: vc}
			m := newVMachine(rt, r, "C14", vc)
			n := rapid.IntRange(10, 40).Draw(rt, "nops")
			for i := 0; i < n; i++ {
				op := m.genOp(rt, i)
				vc.Ops = append(vc.Ops, op)
				m.apply(i, op)
			}
			cfg := &vc.Cfg
			ctl := c14Ctl{Kind: rapid.SampledFrom([]string{"breaker", "breaker", "esm", "esm", "inactive", "inactive", "esm-inactive", "breaker-esm"}).Draw(rt, "ctl")}
			switch ctl.Kind {
			case "breaker", "esm", "breaker-esm":
				ctl.App = rapid.IntRange(0, cfg.NApps-1).Draw(rt, "ctlapp")
				ctl.After = rapid.Bool().Draw(rt, "after")
			case "inactive", "esm-inactive":
				if ctl.Kind == "esm-inactive" {
					ctl.App = rapid.IntRange(0, cfg.NApps-1).Draw(rt, "ctlapp")
				}
				for ai := range cfg.Assets {
					if rapid.IntRange(0, 2).Draw(rt, fmt.Sprintf("inactive%d", ai)) == 0 {
						ctl.Inactive = append(ctl.Inactive, ai)
					}
				}
				if len(ctl.Inactive) == 0 {
					ctl.Inactive = []int{rapid.IntRange(0, len(cfg.Assets)-1).Draw(rt, "inactive")}
				}
			}
			for ai := 0; ai < cfg.NColl; ai++ {
				if rapid.IntRange(0, 3).Draw(rt, fmt.Sprintf("crash%d", ai)) > 0 {
					ctl.Crash = append(ctl.Crash, ai)
				}
			}
			cs.Ctl = ctl
			for j := 0; len(cs.Cands) < 40 && j < 160; j++ {
				op := m.genOp(rt, 10000+j)
				if c14IsMsgKind(op.K) {
					cs.Cands = append(cs.Cands, op)
				}
			}
			c14Run(rt, r, cs, m)
		})
	})
}

func init() {
	replayers["C14.controls"] = func(t *testing.T, r *rec.Rec, raw json.RawMessage) {
		var cs c14Case
		if err := json.Unmarshal(raw, &cs); err != nil {
			t.Fatal(err)
		}
		r.Eval()
		m := newVMachine(t, r, "C14", cs.V)
		for i, op := range cs.V.Ops {
			m.apply(i, op)
		}
		c14Run(t, r, &cs, m)
	}
}
