package checks

// C18, position level: triggering interest / savings calculation more often (by
// interest-calc and reward-calc messages, or by a savings-rate update that
// settles every locker) must not make a vault owe more or a locker earn more
// than a single calculation over the same total time. Differential run of two
// identical chains that differ only in the extra triggers.

import (
	"encoding/json"
	"fmt"
	"math"
	"math/big"
	"testing"

	sdk "github.com/cosmos/cosmos-sdk/types"
	"pgregory.net/rapid"

	"github.com/comdex-official/comdex/app/wasm/bindings"

	"verif/rec"
)

type c18PosCase struct {
	Cfg      vCfg     `json:"cfg"`
	Product  int      `json:"product"`
	Locker   int      `json:"locker"`
	Out      string   `json:"principal"`
	LockAmt  string   `json:"locker_amount"`
	T        []int64  `json:"intervals"` // seconds between trigger points; the last interval ends at the final calculation
	Triggers []string `json:"triggers"`  // at each intermediate point: "calc", "lsr-same", "lsr-other", "both"
	// stability fee in force during each interval (governance updates the product at the interval's start when it
	// differs from the previous one); empty = the product's fee throughout
	Fees []string `json:"fee_schedule,omitempty"`
	// locker saving rate in force during each interval (governance updates the collector's lookup table at the
	// interval's start when it differs from the previous one, in both runs); empty = the configured rate throughout
	LRates []string `json:"locker_rate_schedule,omitempty"`
}

func c18PosRun(t rec.TB, r *rec.Rec, cs *c18PosCase) {
	r.Eval()
	run := func(withTriggers bool) (vaultOwed, lockerBal *big.Rat, ok bool) {
		vc := &vCase{Cfg: cs.Cfg}
		m := newVMachine(t, r, "C18", vc)
		p := m.product(cs.Product)
		out := mustInt(cs.Out)
		in := m.minCollateral(p, out).MulRaw(5)
		step := 0
		do := func(op vOp) { m.apply(step, op); step++ }
		do(vOp{K: "create", U: 0, P: cs.Product, A: in.String(), B: out.String()})
		hasLocker := len(cs.Cfg.Lockers) > 0
		if hasLocker {
			do(vOp{K: "lcreate", U: 0, L: cs.Locker, A: cs.LockAmt})
		}
		v0, okV := m.userVault(0, cs.Product)
		if !okV {
			return nil, nil, false
		}
		var lrate string
		if hasLocker {
			lrate = cs.Cfg.Lockers[cs.Locker].LSR
		}
		for i, dt := range cs.T {
			if i > 0 && len(cs.Fees) == len(cs.T) && cs.Fees[i] != cs.Fees[i-1] {
				pv, _ := m.c.App.AssetKeeper.GetPairsVault(m.c.Ctx, p.ID)
				if err := m.c.App.AssetKeeper.WasmUpdatePairsVault(m.c.Ctx, &bindings.MsgUpdatePairsVault{AppID: m.apps[p.App], ExtPairID: p.ID,
					StabilityFee: sdk.MustNewDecFromStr(cs.Fees[i]), ClosingFee: pv.ClosingFee, LiquidationPenalty: pv.LiquidationPenalty, DrawDownFee: pv.DrawDownFee,
					IsVaultActive: pv.IsVaultActive, MinCr: pv.MinCr, DebtCeiling: pv.DebtCeiling, DebtFloor: pv.DebtFloor, MinUsdValueLeft: pv.MinUsdValueLeft}); err != nil {
					panic(err)
				}
			}
			if hasLocker && i > 0 && len(cs.LRates) == len(cs.T) && cs.LRates[i] != cs.LRates[i-1] {
				do(vOp{K: "lsr", L: cs.Locker, A: cs.LRates[i]})
			}
			if hasLocker && len(cs.LRates) == len(cs.T) {
				lrate = cs.LRates[i]
			}
			do(vOp{K: "block", Dt: dt})
			last := i == len(cs.T)-1
			if !last && !withTriggers {
				continue
			}
			trig := "calc"
			if !last {
				trig = cs.Triggers[i]
			}
			if trig == "calc" || trig == "both" || last {
				do(vOp{K: "intcalc", U: 0, P: cs.Product})
				if hasLocker {
					do(vOp{K: "lcalc", U: 0, L: cs.Locker})
				}
			}
			if hasLocker && !last && (trig == "lsr-same" || trig == "both") {
				do(vOp{K: "lsr", L: cs.Locker, A: lrate})
			}
		}
		c := m.c
		v, _ := m.userVault(0, cs.Product)
		owed := new(big.Rat).SetInt(v.InterestAccumulated.BigInt())
		if tr, ok := c.App.Rewardskeeper.GetVaultInterestTracker(c.Ctx, v0.Id, m.apps[p.App]); ok {
			owed.Add(owed, decRat(tr.InterestAccumulated))
		}
		bal := new(big.Rat)
		if hasLocker {
			if l, ok := m.userLocker(0, cs.Cfg.Lockers[cs.Locker]); ok {
				bal.SetInt(l.NetBalance.BigInt())
				if tr, ok := c.App.Rewardskeeper.GetLockerRewardTracker(c.Ctx, l.LockerId, m.apps[cs.Cfg.Lockers[cs.Locker].App]); ok {
					bal.Add(bal, decRat(tr.RewardsAccumulated))
				}
			}
		}
		return owed, bal, true
	}
	oftenV, oftenL, ok1 := run(true)
	onceV, onceL, ok2 := run(false)
	if !ok1 || !ok2 {
		r.Class("setup-rejected")
		return
	}
	// allowance: the accrual formula is evaluated in float64 (known finding C18-F1 is about
	// the 1e-18 scale); per evaluation the absolute error is bounded by floatEnvelope, and a
	// history has at most 2*len(T) evaluations. Anything above that plus one part in 1e9 of the
	// single accrual is a violation (a double-counted interval is a relative error >= 1e-3).
	total := int64(0)
	for _, dt := range cs.T {
		total += dt
	}
	tolFor := func(x *big.Rat, principal sdk.Int, rate string) *big.Rat {
		t := new(big.Rat).Mul(x, big.NewRat(1, 1000000000))
		t.Add(t, big.NewRat(1, 1000000000))
		pr := principal
		if !pr.IsInt64() {
			pr = sdk.NewInt(1 << 62)
		}
		env := floatEnvelope(pr.Int64(), sdk.MustNewDecFromStr(rate), total)
		return t.Add(t, env.Mul(env, big.NewRat(int64(4*len(cs.T)), 1)))
	}
	vaultP := mustInt(cs.Out).MulRaw(2)
	lockP, lockRate := sdk.OneInt(), "0"
	if len(cs.Cfg.Lockers) > 0 {
		lockP, lockRate = mustInt(cs.LockAmt).MulRaw(2).AddRaw(1), cs.Cfg.Lockers[cs.Locker].LSR
	}
	scheduled := len(cs.Fees) == len(cs.T)
	// reference: compound growth of the principal over the fee schedule, P * (prod_i (1+r_i)^(dt_i/year) - 1), i.e.
	// the single accrual over the combined interval; evaluated in float64 like the module
	growth := 1.0
	for i, dt := range cs.T {
		f := cs.Cfg.Products[cs.Product].Stability
		if scheduled {
			f = cs.Fees[i]
		}
		rate, _ := sdk.MustNewDecFromStr(f).Float64()
		growth *= math.Pow(1+rate, float64(dt)/31557600) // the module counts 365.25 days to the year
	}
	pf, _ := new(big.Float).SetInt(mustInt(cs.Out).BigInt()).Float64()
	want := pf * (growth - 1)
	slack := 1e-6*want + float64(4*len(cs.T)) + 1 // block times sit at most seconds off the nominal schedule; sub-unit remainders per calculation
	gotOnce, _ := onceV.Float64()
	gotOften, _ := oftenV.Float64()
	if gotOnce > want+slack {
		r.Fail(t, "C18.interest-within-single-accrual-over-the-schedule", "vault-interest,few-triggers", cs, "vault owes %.6f after a single calculation; principal %s grown over %v at %v gives %.6f", gotOnce, cs.Out, cs.T, cs.Fees, want)
	}
	if gotOften > want+slack {
		r.Fail(t, "C18.interest-within-single-accrual-over-the-schedule", "vault-interest,many-triggers", cs, "vault owes %.6f with intermediate calculations; principal %s grown over %v at %v gives %.6f", gotOften, cs.Out, cs.T, cs.Fees, want)
	}
	if !scheduled {
		// one fee throughout: the two histories must agree, and agree with the reference
		if new(big.Rat).Sub(oftenV, onceV).Cmp(tolFor(onceV, vaultP, cs.Cfg.Products[cs.Product].Stability)) > 0 {
			r.Fail(t, "C18.more-triggers-never-owe-more", "vault-interest", cs, "vault owes %s after intermediate interest calculations, %s after a single one", oftenV.FloatString(18), onceV.FloatString(18))
		}
		if math.Abs(gotOnce-want) > slack {
			r.Fail(t, "C18.interest-equals-compound-growth", "vault-interest", cs, "vault owes %.6f after a single calculation; principal %s grown over %v gives %.6f", gotOnce, cs.Out, cs.T, want)
		}
	} else {
		r.Class("fee-schedule-with-changes")
	}
	lockExtra := new(big.Rat)
	if lsched := len(cs.LRates) == len(cs.T); lsched && len(cs.Cfg.Lockers) > 0 {
		// reference for the locker: the deposit grown over the rate schedule (savings are credited to the balance, so
		// they compound at every calculation; the exponential law makes that equal to the single accrual)
		lg := 1.0
		for i, dt := range cs.T {
			rate, _ := sdk.MustNewDecFromStr(cs.LRates[i]).Float64()
			lg *= math.Pow(1+rate, float64(dt)/31557600)
			if sdk.MustNewDecFromStr(cs.LRates[i]).GT(sdk.MustNewDecFromStr(lockRate)) {
				lockRate = cs.LRates[i]
			}
		}
		lp, _ := new(big.Float).SetInt(mustInt(cs.LockAmt).BigInt()).Float64()
		wantL := lp * lg
		slackL := 1e-6*wantL + float64(4*len(cs.T)) + 1
		for _, x := range []struct {
			name string
			v    *big.Rat
		}{{"few-triggers", onceL}, {"many-triggers", oftenL}} {
			if got, _ := x.v.Float64(); got > wantL+slackL {
				r.Fail(t, "C18.savings-within-single-accrual-over-the-schedule", "locker-savings,"+x.name, cs, "locker is worth %.6f; deposit %s grown over %v at saving rates %v gives %.6f", got, cs.LockAmt, cs.T, cs.LRates, wantL)
			}
		}
		r.Class("locker-rate-schedule-with-changes")
		// whole units of savings are credited to the balance at every calculation and earn savings from then on,
		// while the fraction below one unit waits in the tracker: with rate changes in between, an extra calculation
		// can promote such a fraction up to one unit earlier. That is not "the same principal": allow one unit's
		// growth per calculation point.
		lockExtra = new(big.Rat).SetFloat64(float64(2*len(cs.T)) * (lg - 1))
	}
	if new(big.Rat).Sub(oftenL, onceL).Cmp(new(big.Rat).Add(tolFor(onceL, lockP, lockRate), lockExtra)) > 0 {
		r.Fail(t, "C18.more-triggers-never-earn-more", "locker-savings", cs, "locker is worth %s after intermediate calculations / rate settlement, %s after a single one", oftenL.FloatString(18), onceL.FloatString(18))
	}
	if onceV.Sign() > 0 {
		r.Class("vault-interest-accrued")
	}
	if onceL.Cmp(new(big.Rat).SetInt(mustInt(cs.LockAmt).BigInt())) > 0 {
		r.Class("locker-savings-accrued")
	}
	if onceV.Sign() > 0 || onceL.Sign() > 0 {
		r.NonTrivial(cs)
	}
}

func TestC18_position(t *testing.T) {
	r := rec.New("C18", "position")
	t.Cleanup(r.Flush)
	rapid.Check(t, func(rt *rapid.T) {
		r.Guard(func() {
			cfg := genVCfg(rt, "C18", false)
			cfg.NUsers = 2
			cs := &c18PosCase{Cfg: cfg}
			// a non-stable product with a stability fee, on an app with interest switched on
			cs.Product = -1
			for i, p := range cfg.Products {
				if !p.Stable {
					cs.Product = i
					break
				}
			}
			if cs.Product < 0 {
				cfg.Products[0].Stable = false
				cs.Product = 0
			}
			cs.Cfg = cfg
			p := &cs.Cfg.Products[cs.Product]
			if p.Stability == "0" {
				p.Stability = "0.1"
			}
			cs.Cfg.InterestOn[p.App] = true
			floor := mustInt(p.Floor)
			cs.Out = floor.MulRaw(rapid.Int64Range(1, 20).Draw(rt, "outmul")).String()
			if len(cs.Cfg.Lockers) > 0 {
				cs.Locker = rapid.IntRange(0, len(cs.Cfg.Lockers)-1).Draw(rt, "locker")
				lc := &cs.Cfg.Lockers[cs.Locker]
				lc.Rewards = true
				if lc.LSR == "0" {
					lc.LSR = "0.1"
				}
				lc.Seed = "1000000000000"
				cs.LockAmt = rapid.SampledFrom([]string{"1", "1000", "1000000", "3500000", "1000000000"}).Draw(rt, "lockamt")
			} else {
				cs.LockAmt = "0"
			}
			n := rapid.IntRange(2, 4).Draw(rt, "points")
			for i := 0; i < n; i++ {
				cs.T = append(cs.T, rapid.SampledFrom([]int64{5, 6, 60, 3600, 86400, 30 * 86400, 365 * 86400}).Draw(rt, fmt.Sprintf("dt%d", i)))
				if i < n-1 {
					cs.Triggers = append(cs.Triggers, rapid.SampledFrom([]string{"calc", "lsr-same", "both"}).Draw(rt, fmt.Sprintf("trig%d", i)))
				}
			}
			if rapid.Bool().Draw(rt, "feeschedule") {
				cs.Fees = []string{p.Stability}
				for i := 1; i < n; i++ {
					cs.Fees = append(cs.Fees, rapid.SampledFrom([]string{p.Stability, "0", "0", "0.05", "0.5"}).Draw(rt, fmt.Sprintf("fee%d", i)))
				}
			}
			if len(cs.Cfg.Lockers) > 0 && rapid.Bool().Draw(rt, "lrateschedule") {
				cs.LRates = []string{cs.Cfg.Lockers[cs.Locker].LSR}
				for i := 1; i < n; i++ {
					cs.LRates = append(cs.LRates, rapid.SampledFrom([]string{cs.LRates[0], "0", "0", "0.05", "0.5"}).Draw(rt, fmt.Sprintf("lrate%d", i)))
				}
			}
			c18PosRun(rt, r, cs)
		})
	})
}

func init() {
	replayers["C18.position"] = func(t *testing.T, r *rec.Rec, raw json.RawMessage) {
		var cs c18PosCase
		if err := json.Unmarshal(raw, &cs); err != nil {
			t.Fatal(err)
		}
		c18PosRun(t, r, &cs)
	}
}

var _ = sdk.ZeroInt
