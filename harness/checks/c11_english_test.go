package checks

// C11, English auctions (surplus and debt auctions of the second-generation
// modules). The vault / locker world with one collector per (app, debt asset)
// armed for a surplus or a debt auction by generated thresholds and lot sizes;
// blocks start the auctions, users bid around the minimum increment (equal,
// barely improving, not improving, far beyond), blocks beyond the end time
// close them. Oracles per accepted bid: the bidder paid exactly its bid, the
// outbid bidder got exactly its bid back in the same transaction, auction
// custody changed by the difference, and the bid improved on the standing bid
// by at least ceil(bid factor x standing bid). Per closed auction: exactly the
// best bidder received the lot and nobody else is out of pocket.

import (
	"encoding/json"
	"fmt"
	"sort"
	"testing"
	"time"

	sdk "github.com/cosmos/cosmos-sdk/types"
	authtypes "github.com/cosmos/cosmos-sdk/x/auth/types"
	"pgregory.net/rapid"

	"github.com/comdex-official/comdex/app/wasm/bindings"
	auctypes "github.com/comdex-official/comdex/x/auctionsV2/types"
	collectortypes "github.com/comdex-official/comdex/x/collector/types"
	tokenminttypes "github.com/comdex-official/comdex/x/tokenmint/types"

	"verif/rec"
)

type c11ECollector struct {
	Locker  int    `json:"locker"` // index into cfg.Lockers: the (app, asset) collector
	Surplus bool   `json:"surplus"`
	Lot     string `json:"lot_size"`
	DebtLot string `json:"debt_lot_size"`
}

type c11EOp struct {
	K  string `json:"k"` // block | bid
	Dt int64  `json:"dt,omitempty"`
	U  int    `json:"u,omitempty"`
	ID uint64 `json:"id,omitempty"`
	A  string `json:"a,omitempty"`
}

type c11ECase struct {
	V    *vCase          `json:"v"`
	Coll []c11ECollector `json:"collectors"`
	Ops  []c11EOp        `json:"ops"`
}

type c11ELedger struct {
	kind     string // surplus | debt
	bidDenom string // what the bidder pays in
	lotDenom string
	paid     map[int]sdk.Int // user -> net amount currently held by the auction on its behalf
	best     int             // user with the standing bid (-1: none)
	standing sdk.Int         // the standing bid as the auction measures it (surplus: amount paid; debt: lot size asked)
	lot      sdk.Int         // what the winner receives (surplus: the fixed lot; debt: the lot size of the best bid)
	fixed    sdk.Int         // debt auctions: the fixed amount every bidder pays
	nBids    int
}

type c11EMachine struct {
	m             *vMachine
	t             rec.TB
	r             *rec.Rec
	cs            *c11ECase
	ledgers       map[uint64]*c11ELedger
	closed        int
	closedSurplus int
	multi         int // auctions closed after at least two accepted bids
	edge          int // bids accepted exactly at the minimum increment
	rejEdge       int // bids rejected one unit short of it
}

// collectorDenom is the denomination of the collector the auction was started for.
func (l *c11ELedger) collectorDenom() string {
	if l.kind == "surplus" {
		return l.lotDenom
	}
	return l.bidDenom
}

func (e *c11EMachine) fail(assertion, ctx, f string, a ...interface{}) {
	e.r.Fail(e.t, assertion, ctx, e.cs, f, a...)
}

func aucAddr() sdk.AccAddress { return authtypes.NewModuleAddress(auctypes.ModuleName) }

func newC11EMachine(t rec.TB, r *rec.Rec, prop string, cs *c11ECase) *c11EMachine {
	cfg := &cs.V.Cfg
	for i := range cfg.Liq.Apps {
		cfg.Liq.Apps[i].Whitelisted, cfg.Liq.Apps[i].English = true, true
	}
	m := newVMachine(t, r, prop, cs.V)
	e := &c11EMachine{m: m, t: t, r: r, cs: cs, ledgers: map[uint64]*c11ELedger{}}
	c := m.c
	minted := map[uint64]bool{}
	for _, cc := range cs.Coll {
		lc := cfg.Lockers[cc.Locker]
		app, asset := m.apps[lc.App], cfg.Assets[lc.Asset]
		if !minted[app] {
			// the app's governance token has to exist in the token-mint module before it can be burned or minted
			if _, err := c.Deliver(tokenminttypes.NewMsgMintNewTokensRequest(c.Accs[0].Addr.String(), app, cfg.Assets[0].ID)); err != nil {
				panic(fmt.Errorf("token mint: %w", err))
			}
			minted[app] = true
		}
		look, _ := c.App.CollectorKeeper.GetCollectorLookupTable(c.Ctx, app, asset.ID)
		nf, _ := c.App.CollectorKeeper.GetNetFeeCollectedData(c.Ctx, app, asset.ID)
		net := nf.NetFeesCollected
		if net.IsNil() {
			net = sdk.ZeroInt()
		}
		lot, debtLot := mustInt(cc.Lot), mustInt(cc.DebtLot)
		upd := &bindings.MsgUpdateCollectorLookupTable{AppID: app, AssetID: asset.ID, LotSize: lot, DebtLotSize: debtLot, BidFactor: look.BidFactor, LSR: look.LockerSavingRate}
		if cc.Surplus {
			// surplus: net fees >= threshold + lot
			upd.SurplusThreshold, upd.DebtThreshold = sdk.ZeroInt(), sdk.ZeroInt()
		} else {
			// debt: net fees <= threshold - lot
			upd.SurplusThreshold, upd.DebtThreshold = net.MulRaw(4).Add(lot.MulRaw(100)), net.Add(lot).AddRaw(1)
		}
		if err := c.App.CollectorKeeper.WasmUpdateCollectorLookupTable(c.Ctx, upd); err != nil {
			panic(err)
		}
		if err := c.App.CollectorKeeper.WasmSetAuctionMappingForApp(c.Ctx, &bindings.MsgSetAuctionMappingForApp{AppID: app, AssetIDs: asset.ID,
			IsSurplusAuctions: cc.Surplus, IsDebtAuctions: !cc.Surplus, AssetOutOraclePrices: false, AssetOutPrices: 1000000}); err != nil {
			panic(err)
		}
	}
	return e
}

func (e *c11EMachine) userIdx(addr string) int { return e.m.userIdx(addr) }

// sync opens ledgers for auctions that appeared and settles those that disappeared.
func (e *c11EMachine) sync(i int, balBefore map[string]sdk.Int) {
	c := e.m.c
	live := map[uint64]auctypes.Auction{}
	for _, a := range c.App.NewaucKeeper.GetAuctions(c.Ctx) {
		if a.AuctionType {
			continue
		}
		live[a.AuctionId] = a
		if _, ok := e.ledgers[a.AuctionId]; ok {
			continue
		}
		lv, _ := c.App.NewliqKeeper.GetLockedVault(c.Ctx, a.AppId, a.LockedVaultId)
		if lv.InitiatorType != "surplus" && lv.InitiatorType != "debt" {
			continue
		}
		l := &c11ELedger{kind: lv.InitiatorType, paid: map[int]sdk.Int{}, best: -1, bidDenom: a.DebtToken.Denom, lotDenom: a.CollateralToken.Denom}
		if l.kind == "surplus" {
			l.standing, l.lot = a.DebtToken.Amount, a.CollateralToken.Amount
		} else {
			l.standing, l.lot, l.fixed = a.CollateralToken.Amount, a.CollateralToken.Amount, a.DebtToken.Amount
		}
		e.ledgers[a.AuctionId] = l
		e.r.Class("english-auction-started:" + l.kind)
	}
	expect := map[string]sdk.Int{} // user/denom -> lot it must have received in this block
	denoms := map[string]bool{}
	var ids []uint64
	for id := range e.ledgers {
		if _, ok := live[id]; !ok {
			ids = append(ids, id)
		}
	}
	sort.Slice(ids, func(a, b int) bool { return ids[a] < ids[b] })
	for _, id := range ids {
		l := e.ledgers[id]
		// the auction is gone: it was closed in the block that just began
		delete(e.ledgers, id)
		e.closed++
		if l.kind == "surplus" {
			e.closedSurplus++
		}
		if l.nBids >= 2 {
			e.multi++
		}
		e.r.Class("english-auction-closed:" + l.kind)
		if l.best < 0 {
			e.fail("C11.english-close-needs-a-bid", l.kind, "step %d: auction %d closed without any accepted bid", i, id)
		}
		for u := range e.m.c.Accs {
			amt, ok := l.paid[u]
			if ok && u != l.best && !amt.IsZero() {
				e.fail("C11.losing-bidder-refunded-in-full", l.kind, "step %d: auction %d closed; user %d, who did not win, is still out %s%s", i, id, u, amt, l.bidDenom)
			}
		}
		k := fmt.Sprintf("%d/%s", l.best, l.lotDenom)
		if _, ok := expect[k]; !ok {
			expect[k] = sdk.ZeroInt()
		}
		expect[k] = expect[k].Add(l.lot)
		denoms[l.lotDenom] = true
	}
	if balBefore != nil {
		var ds []string
		for d := range denoms {
			ds = append(ds, d)
		}
		sort.Strings(ds)
		for _, d := range ds {
			for u := range c.Accs {
				k := fmt.Sprintf("%d/%s", u, d)
				got := c.Bal(c.Accs[u].Addr, d).Sub(balBefore[k])
				want, ok := expect[k]
				if !ok {
					want = sdk.ZeroInt()
				}
				if !got.Equal(want) {
					e.fail("C11.exactly-the-best-bidder-receives-the-lot", d, "step %d: auctions %v closed in this block; user %d received %s%s, the lots it won amount to %s", i, ids, u, got, d, want)
				}
			}
		}
	}
}

// collectorBooks returns, per debt-asset denomination, the collector's custody and the net fees recorded over all apps.
func (e *c11EMachine) collectorBooks() (map[string]sdk.Int, map[string]sdk.Int) {
	c, cfg := e.m.c, &e.m.cs.Cfg
	cust, net := map[string]sdk.Int{}, map[string]sdk.Int{}
	for ai := cfg.NColl; ai < len(cfg.Assets); ai++ {
		a := cfg.Assets[ai]
		cust[a.Denom] = c.Bal(collectorAddr(), a.Denom)
		sum := sdk.ZeroInt()
		for _, app := range e.m.apps {
			if nf, ok := c.App.CollectorKeeper.GetNetFeeCollectedData(c.Ctx, app, a.ID); ok && !nf.NetFeesCollected.IsNil() {
				sum = sum.Add(nf.NetFeesCollected)
			}
		}
		net[a.Denom] = sum
	}
	return cust, net
}

func (e *c11EMachine) balances() map[string]sdk.Int {
	c := e.m.c
	out := map[string]sdk.Int{}
	for u := range c.Accs {
		for _, a := range e.m.cs.Cfg.Assets {
			out[fmt.Sprintf("%d/%s", u, a.Denom)] = c.Bal(c.Accs[u].Addr, a.Denom)
		}
	}
	return out
}

func (e *c11EMachine) genOp(rt *rapid.T, i int) c11EOp {
	c := e.m.c
	lbl := func(s string) string { return fmt.Sprintf("%s_%d", s, i) }
	var english []auctypes.Auction
	for _, a := range c.App.NewaucKeeper.GetAuctions(c.Ctx) {
		if !a.AuctionType {
			english = append(english, a)
		}
	}
	if len(english) == 0 || rapid.IntRange(0, 3).Draw(rt, lbl("blk")) == 0 {
		dur := int64(e.m.cs.Cfg.Liq.Duration)
		return c11EOp{K: "block", Dt: rapid.SampledFrom([]int64{5, 6, dur / 2, dur, dur + 1, 3 * dur}).Draw(rt, lbl("dt"))}
	}
	a := english[rapid.IntRange(0, len(english)-1).Draw(rt, lbl("auction"))]
	op := c11EOp{K: "bid", ID: a.AuctionId, U: rapid.IntRange(0, e.m.cs.Cfg.NUsers-1).Draw(rt, lbl("user"))}
	l := e.ledgers[a.AuctionId]
	ap, _ := c.App.NewaucKeeper.GetAuctionParams(c.Ctx)
	if l == nil {
		op.A = "1"
		return op
	}
	step := ap.BidFactor.MulInt(l.standing).Ceil().TruncateInt()
	edge := l.standing.Add(step)
	if l.kind == "debt" {
		edge = l.standing.Sub(step)
	}
	if l.best < 0 {
		edge = l.standing
	}
	switch rapid.IntRange(0, 7).Draw(rt, lbl("bk")) {
	case 0:
		op.A = clampPos(edge).String()
	case 1:
		op.A = clampPos(edge.AddRaw(1)).String()
	case 2:
		op.A = clampPos(edge.SubRaw(1)).String()
	case 3:
		op.A = clampPos(l.standing).String()
	case 4:
		op.A = clampPos(edge.MulRaw(3).QuoRaw(2)).String()
	case 5:
		op.A = clampPos(edge.QuoRaw(2)).String()
	default:
		op.A = clampPos(edge.AddRaw(rapid.Int64Range(-3, 3).Draw(rt, lbl("d")))).String()
	}
	return op
}

func (e *c11EMachine) apply(i int, op c11EOp) {
	c := e.m.c
	switch op.K {
	case "block":
		before := e.balances()
		cust0, net0 := e.collectorBooks()
		kindsBefore := map[uint64]*c11ELedger{}
		for id, l := range e.ledgers {
			kindsBefore[id] = l
		}
		if err := c.NextBlockRecover(time.Duration(op.Dt) * time.Second); err != nil {
			e.fail(e.m.prop+".block-hook-panic", "block", "step %d: %v", i, err)
		}
		e.sync(i, before)
		if e.m.prop == "C13" {
			// nothing but the auctions touches the collector in these histories: what its custody gains or loses in a
			// block is what the recorded net fees must gain or lose
			cust1, net1 := e.collectorBooks()
			// attribute the events of this block to the collector asset they concern
			type ev struct {
				started, surplusClosed, debtClosed bool
				surplusLots                        sdk.Int // lots of the surplus auctions closed in this block
			}
			events := map[string]*ev{}
			at := func(d string) *ev {
				if events[d] == nil {
					events[d] = &ev{}
				}
				return events[d]
			}
			for id, l := range e.ledgers {
				if _, ok := kindsBefore[id]; !ok {
					at(l.collectorDenom()).started = true
				}
			}
			for id, k := range kindsBefore {
				if _, ok := e.ledgers[id]; !ok {
					if k.kind == "surplus" {
						x := at(k.collectorDenom())
						x.surplusClosed = true
						if x.surplusLots.IsNil() {
							x.surplusLots = sdk.ZeroInt()
						}
						x.surplusLots = x.surplusLots.Add(k.lot)
					} else {
						at(k.collectorDenom()).debtClosed = true
					}
				}
			}
			var ds []string
			for d := range cust0 {
				ds = append(ds, d)
			}
			sort.Strings(ds) // the first failing assertion must not depend on map order
			for _, d := range ds {
				dc, dn := cust1[d].Sub(cust0[d]), net1[d].Sub(net0[d])
				what := "no-auction-event"
				if x := events[d]; x != nil {
					n := 0
					for _, b := range []bool{x.started, x.surplusClosed, x.debtClosed} {
						if b {
							n++
						}
					}
					switch {
					case n > 1:
						e.r.Class("collector-books:several-events-on-one-asset-in-a-block:not-attributed")
						continue
					case x.surplusClosed:
						// known finding C13-F1 is exactly: the lot leaves the collector once more (custody -lot) and the net
						// fees are raised by the lot (+lot); any other imbalance at a surplus close is something else
						what = "surplus-auction-closed-other-imbalance"
						if dn.Sub(dc).Equal(x.surplusLots.MulRaw(2)) {
							what = "surplus-auction-closed"
						}
					case x.debtClosed:
						what = "debt-auction-closed"
					default:
						what = "auction-started"
					}
				}
				if !dc.Equal(dn) {
					e.fail("C13.net-fees-follow-custody", what, "step %d: in this block the collector's custody of %s changed by %s, the recorded net fees by %s", i, d, dc, dn)
				}
			}
			if e.closedSurplus == 0 {
				e.m.c13Invariants(i, vOp{K: "block"})
			} else {
				// every close of a surplus auction distorts the books (known finding C13-F1): from the first one on,
				// "custody backs the recorded net fees" would only restate it
				e.r.Class("collector-custody-not-compared-after-a-surplus-close")
			}
		}
	case "bid":
		a, err := c.App.NewaucKeeper.GetAuction(c.Ctx, op.ID)
		l := e.ledgers[op.ID]
		if err != nil || l == nil {
			return
		}
		amt := mustInt(op.A)
		bidDenom := a.DebtToken.Denom
		if l.kind == "debt" {
			bidDenom = a.CollateralToken.Denom // a debt-auction bid names the lot size it accepts
		}
		before := e.balances()
		custody := c.Bal(aucAddr(), l.bidDenom)
		ap, _ := c.App.NewaucKeeper.GetAuctionParams(c.Ctx)
		_, derr := c.Deliver(auctypes.NewMsgPlaceMarketBid(c.Accs[op.U].Addr.String(), op.ID, sdk.NewCoin(bidDenom, amt)))
		step := ap.BidFactor.MulInt(l.standing).Ceil().TruncateInt()
		improves := false
		switch {
		case l.best < 0 && l.kind == "surplus":
			improves = amt.GTE(l.standing)
		case l.best < 0:
			improves = amt.LTE(l.standing)
		case l.kind == "surplus":
			improves = amt.GTE(l.standing.Add(step))
		default:
			improves = amt.LTE(l.standing.Sub(step))
		}
		if derr != nil {
			if debugErrs {
				s := derr.Error()
				if len(s) > 60 {
					s = s[:60]
				}
				e.r.Class("err:ebid:" + s)
			}
			if l.best >= 0 && !improves {
				e.rejEdge++
			}
			return
		}
		e.r.Class("english-bid-accepted:" + l.kind)
		if !improves {
			e.fail("C11.bid-improves-by-the-bid-factor", l.kind, "step %d: bid %s on auction %d accepted; standing bid %s, minimum step %s (first bid: %v)", i, amt, op.ID, l.standing, step, l.best < 0)
		}
		if l.best >= 0 && (amt.Equal(l.standing.Add(step)) || amt.Equal(l.standing.Sub(step))) {
			e.edge++
		}
		// money: the bidder paid its bid, the outbid bidder got its bid back, custody moved by the difference
		pay := amt
		if l.kind == "debt" {
			pay = l.fixed
		}
		prevBest, prevPaid := l.best, sdk.ZeroInt()
		if prevBest >= 0 {
			prevPaid = l.paid[prevBest]
		}
		after := e.balances()
		for u := range c.Accs {
			k := fmt.Sprintf("%d/%s", u, l.bidDenom)
			delta := after[k].Sub(before[k])
			want := sdk.ZeroInt()
			if u == op.U {
				want = want.Sub(pay)
			}
			if u == prevBest {
				want = want.Add(prevPaid)
			}
			if !delta.Equal(want) {
				e.fail("C11.outbid-bidder-refunded-in-full", l.kind, "step %d: bid %s by user %d on auction %d (previous best: user %d with %s): user %d's %s balance changed by %s, expected %s", i, amt, op.U, op.ID, prevBest, prevPaid, u, l.bidDenom, delta, want)
			}
		}
		if got, want := c.Bal(aucAddr(), l.bidDenom).Sub(custody), pay.Sub(prevPaid); !got.Equal(want) {
			e.fail("C11.custody-holds-exactly-the-standing-bid", l.kind, "step %d: auction custody of %s changed by %s on an accepted bid of %s over %s", i, l.bidDenom, got, pay, prevPaid)
		}
		if prevBest >= 0 {
			l.paid[prevBest] = sdk.ZeroInt()
		}
		if _, ok := l.paid[op.U]; !ok {
			l.paid[op.U] = sdk.ZeroInt()
		}
		l.paid[op.U] = l.paid[op.U].Add(pay)
		l.best, l.standing = op.U, amt
		if l.kind == "debt" {
			l.lot = amt
		}
		l.nBids++
	}
}

func (e *c11EMachine) finish() {
	e.r.ClassN("english-auctions-closed", e.closed)
	e.r.ClassN("english-auctions-closed-after-several-bids", e.multi)
	e.r.ClassN("bids-accepted-exactly-at-minimum-increment", e.edge)
	e.r.ClassN("bids-rejected-for-not-improving", e.rejEdge)
	if e.closed > 0 && e.multi > 0 {
		e.r.NonTrivialSig(rec.Sig(e.cs), func() interface{} {
			return map[string]interface{}{"ops": len(e.cs.Ops), "closed": e.closed, "closed_after_several_bids": e.multi, "edge_bids": e.edge, "rejected_non_improving": e.rejEdge}
		})
	}
}

func genC11ECase(rt *rapid.T) *c11ECase {
	vc := &vCase{Cfg: genVCfg(rt, "C13", true)}
	cfg := &vc.Cfg
	if len(cfg.Lockers) == 0 {
		cfg.Lockers = append(cfg.Lockers, vLockerCfg{App: 0, Asset: cfg.NColl, LSR: "0.02", Rewards: false, Seed: "1000000000000"})
	}
	cs := &c11ECase{V: vc}
	for li := range cfg.Lockers {
		// the collector needs funds and recorded net fees for a surplus lot
		if mustInt(cfg.Lockers[li].Seed).LT(sdk.NewInt(1000000)) {
			cfg.Lockers[li].Seed = "1000000000"
		}
		cs.Coll = append(cs.Coll, c11ECollector{Locker: li, Surplus: rapid.Bool().Draw(rt, fmt.Sprintf("surplus%d", li)),
			Lot:     rapid.SampledFrom([]string{"1", "7", "1000", "100000", "999999"}).Draw(rt, fmt.Sprintf("lot%d", li)),
			DebtLot: rapid.SampledFrom([]string{"1", "100", "1000000", "123456789"}).Draw(rt, fmt.Sprintf("debtlot%d", li))})
	}
	return cs
}

func TestC11_english(t *testing.T) {
	r := rec.New("C11", "english")
	t.Cleanup(r.Flush)
	rapid.Check(t, func(rt *rapid.T) {
		r.Guard(func() {
			r.Eval()
			cs := genC11ECase(rt)
			e := newC11EMachine(rt, r, "C11", cs)
			n := rapid.IntRange(10, 50).Draw(rt, "nops")
			for i := 0; i < n; i++ {
				op := e.genOp(rt, i)
				cs.Ops = append(cs.Ops, op)
				e.apply(i, op)
			}
			e.finish()
		})
	})
}

func init() {
	replayers["C11.english"] = func(t *testing.T, r *rec.Rec, raw json.RawMessage) {
		var cs c11ECase
		if err := json.Unmarshal(raw, &cs); err != nil {
			t.Fatal(err)
		}
		r.Eval()
		e := newC11EMachine(t, r, "C11", &cs)
		for i, op := range cs.Ops {
			e.apply(i, op)
		}
		e.finish()
	}
}

var _ = collectortypes.ModuleName

func TestC13_auctions(t *testing.T) {
	r := rec.New("C13", "auctions")
	t.Cleanup(r.Flush)
	rapid.Check(t, func(rt *rapid.T) {
		r.Guard(func() {
			r.Eval()
			cs := genC11ECase(rt)
			e := newC11EMachine(rt, r, "C13", cs)
			n := rapid.IntRange(10, 50).Draw(rt, "nops")
			for i := 0; i < n; i++ {
				op := e.genOp(rt, i)
				cs.Ops = append(cs.Ops, op)
				e.apply(i, op)
			}
			e.finish()
		})
	})
}

func init() {
	replayers["C13.auctions"] = func(t *testing.T, r *rec.Rec, raw json.RawMessage) {
		var cs c11ECase
		if err := json.Unmarshal(raw, &cs); err != nil {
			t.Fatal(err)
		}
		r.Eval()
		e := newC11EMachine(t, r, "C13", &cs)
		for i, op := range cs.Ops {
			e.apply(i, op)
		}
		e.finish()
	}
}
