// Package world builds a complete in-memory comdex application with a fixed
// genesis time and deterministic keys, and gives the harness control over
// blocks, time, transactions and oracle prices.
package world

import (
	"crypto/sha256"
	"encoding/binary"
	"encoding/json"
	"fmt"
	"os"
	"sync"
	"time"

	"cosmossdk.io/math"
	dbm "github.com/cometbft/cometbft-db"
	abci "github.com/cometbft/cometbft/abci/types"
	"github.com/cometbft/cometbft/libs/log"
	tmproto "github.com/cometbft/cometbft/proto/tendermint/types"
	tmtypes "github.com/cometbft/cometbft/types"
	"github.com/cosmos/cosmos-sdk/baseapp"
	codectypes "github.com/cosmos/cosmos-sdk/codec/types"
	cryptocodec "github.com/cosmos/cosmos-sdk/crypto/codec"
	"github.com/cosmos/cosmos-sdk/crypto/keys/ed25519"
	"github.com/cosmos/cosmos-sdk/crypto/keys/secp256k1"
	simtestutil "github.com/cosmos/cosmos-sdk/testutil/sims"
	sdk "github.com/cosmos/cosmos-sdk/types"
	authtypes "github.com/cosmos/cosmos-sdk/x/auth/types"
	banktypes "github.com/cosmos/cosmos-sdk/x/bank/types"
	minttypes "github.com/cosmos/cosmos-sdk/x/mint/types"
	stakingtypes "github.com/cosmos/cosmos-sdk/x/staking/types"

	chain "github.com/comdex-official/comdex/app"
)

// GenesisTime is the fixed genesis time of every harness chain.
var GenesisTime = time.Date(2023, 1, 1, 0, 0, 0, 0, time.UTC)

var (
	homeOnce sync.Once
	homeDir  string
)

func home() string {
	homeOnce.Do(func() {
		d, err := os.MkdirTemp("", "verif-comdex-home-")
		if err != nil {
			panic(err)
		}
		homeDir = d
	})
	return homeDir
}

// CleanupHome removes the per-process home directory (wasm cache).
func CleanupHome() {
	if homeDir != "" {
		os.RemoveAll(homeDir)
	}
}

// Account is a deterministic test account.
type Account struct {
	Name string
	Priv *secp256k1.PrivKey
	Addr sdk.AccAddress
}

func (a Account) String() string { return a.Addr.String() }

// Chain is one application instance plus the harness-side block state.
type Chain struct {
	App     *chain.App
	Ctx     sdk.Context // deliver-state context of the current block
	ChainID string
	Height  int64
	Time    time.Time
	ValHash []byte
	Accs    []Account
	// Minted is the harness supply: everything given to accounts by Fund.
	Minted sdk.Coins
	// InBlock tells whether a block is open (BeginBlock done, EndBlock not).
	InBlock bool
	// TxMode makes Deliver sign a transaction and send it through the
	// application's DeliverTx; every response is appended to TxTrace.
	TxMode  bool
	TxTrace []string
	// HandlerPanics counts the panics recovered by Deliver, per message type and panic text.
	HandlerPanics map[string]int
}

// Options for NewChain.
type Options struct {
	ChainID  string
	NumAccs  int
	Seed     uint64
	Genesis  map[string]json.RawMessage // optional full app state (C20 import)
	GenTime  time.Time
	InitialH int64
	// NoFirstBlock leaves the chain right after InitChain + Commit (no BeginBlock yet).
	NoFirstBlock bool
	// PostInit runs on the deliver-state context between InitChain and its Commit.
	PostInit func(ctx sdk.Context, app *chain.App)
}

func derive(seed uint64, i int, tag string) []byte {
	var b [16]byte
	binary.BigEndian.PutUint64(b[:8], seed)
	binary.BigEndian.PutUint64(b[8:], uint64(i))
	h := sha256.Sum256(append([]byte(tag), b[:]...))
	return h[:]
}

// MakeAccounts derives n deterministic accounts.
func MakeAccounts(seed uint64, n int) []Account {
	out := make([]Account, n)
	for i := range out {
		pk := secp256k1.GenPrivKeyFromSecret(derive(seed, i, "acc"))
		out[i] = Account{Name: fmt.Sprintf("u%d", i), Priv: pk, Addr: sdk.AccAddress(pk.PubKey().Address())}
	}
	return out
}

// NewApp creates a bare application on a MemDB.
func NewApp(chainID string) *chain.App {
	db := dbm.NewMemDB()
	return chain.New(log.NewNopLogger(), db, nil, true, map[int64]bool{}, home(), 5,
		chain.MakeEncodingConfig(), simtestutil.EmptyAppOptions{}, chain.GetWasmEnabledProposals(), chain.EmptyWasmOpts,
		baseapp.SetChainID(chainID))
}

var consensusParams = &tmproto.ConsensusParams{
	Block:     &tmproto.BlockParams{MaxBytes: 2000000, MaxGas: -1},
	Evidence:  &tmproto.EvidenceParams{MaxAgeNumBlocks: 302400, MaxAgeDuration: 504 * time.Hour, MaxBytes: 10000},
	Validator: &tmproto.ValidatorParams{PubKeyTypes: []string{tmtypes.ABCIPubKeyTypeEd25519}},
}

// NewChain builds a chain, runs InitChain with a fixed time and opens block 1.
func NewChain(o Options) *Chain {
	if o.ChainID == "" {
		o.ChainID = "testing"
	}
	if o.NumAccs == 0 {
		o.NumAccs = 6
	}
	if o.GenTime.IsZero() {
		o.GenTime = GenesisTime
	}
	if o.InitialH == 0 {
		o.InitialH = 1
	}
	app := NewApp(o.ChainID)
	accs := MakeAccounts(o.Seed, o.NumAccs)

	valPriv := ed25519.GenPrivKeyFromSecret(derive(o.Seed, 0, "val"))
	tmPub, err := cryptocodec.ToTmPubKeyInterface(valPriv.PubKey())
	if err != nil {
		panic(err)
	}
	validator := tmtypes.NewValidator(tmPub, 1)
	valSet := tmtypes.NewValidatorSet([]*tmtypes.Validator{validator})

	var stateBytes []byte
	if o.Genesis != nil {
		stateBytes, err = json.Marshal(o.Genesis)
		if err != nil {
			panic(err)
		}
	} else {
		gs := chain.NewDefaultGenesisState(app.AppCodec())
		cdc := app.AppCodec()
		genAccs := []authtypes.GenesisAccount{}
		for _, a := range accs {
			genAccs = append(genAccs, authtypes.NewBaseAccount(a.Addr, a.Priv.PubKey(), 0, 0))
		}
		gs[authtypes.ModuleName] = cdc.MustMarshalJSON(authtypes.NewGenesisState(authtypes.DefaultParams(), genAccs))

		pk, err := cryptocodec.FromTmPubKeyInterface(validator.PubKey)
		if err != nil {
			panic(err)
		}
		pkAny, err := codectypes.NewAnyWithValue(pk)
		if err != nil {
			panic(err)
		}
		bondAmt := sdk.DefaultPowerReduction
		val := stakingtypes.Validator{
			OperatorAddress: sdk.ValAddress(validator.Address).String(), ConsensusPubkey: pkAny,
			Status: stakingtypes.Bonded, Tokens: bondAmt, DelegatorShares: math.LegacyOneDec(),
			UnbondingTime:     time.Unix(0, 0).UTC(),
			Commission:        stakingtypes.NewCommission(math.LegacyZeroDec(), math.LegacyZeroDec(), math.LegacyZeroDec()),
			MinSelfDelegation: math.ZeroInt(),
		}
		del := stakingtypes.NewDelegation(accs[0].Addr, validator.Address.Bytes(), math.LegacyOneDec())
		sp := stakingtypes.DefaultParams()
		sp.BondDenom = "ucmdx"
		gs[stakingtypes.ModuleName] = cdc.MustMarshalJSON(stakingtypes.NewGenesisState(sp, []stakingtypes.Validator{val}, []stakingtypes.Delegation{del}))

		balances := []banktypes.Balance{
			{Address: authtypes.NewModuleAddress(stakingtypes.BondedPoolName).String(), Coins: sdk.Coins{sdk.NewCoin("ucmdx", bondAmt)}},
		}
		total := sdk.NewCoins()
		for _, b := range balances {
			total = total.Add(b.Coins...)
		}
		gs[banktypes.ModuleName] = cdc.MustMarshalJSON(banktypes.NewGenesisState(banktypes.DefaultGenesisState().Params, balances, total, []banktypes.Metadata{}, []banktypes.SendEnabled{}))
		stateBytes, err = json.Marshal(gs)
		if err != nil {
			panic(err)
		}
	}

	app.InitChain(abci.RequestInitChain{
		ChainId: o.ChainID, Validators: []abci.ValidatorUpdate{}, ConsensusParams: consensusParams,
		AppStateBytes: stateBytes, Time: o.GenTime, InitialHeight: o.InitialH,
	})
	if o.PostInit != nil {
		o.PostInit(app.BaseApp.NewContext(false, tmproto.Header{ChainID: o.ChainID, Height: o.InitialH, Time: o.GenTime}), app)
	}
	app.Commit()
	c := &Chain{App: app, ChainID: o.ChainID, Height: app.LastBlockHeight(), Time: o.GenTime, ValHash: valSet.Hash(), Accs: accs}
	if o.NoFirstBlock {
		c.Ctx = app.BaseApp.NewContext(true, c.header())
		return c
	}
	c.beginBlock(0)
	return c
}

// Export ends and commits the open block and exports the application state
// the way `comdex export` does.
func (c *Chain) Export() (map[string]json.RawMessage, int64, error) {
	if c.InBlock {
		c.EndBlockOnly()
	}
	c.Ctx = c.App.BaseApp.NewContext(true, c.header())
	exp, err := c.App.ExportAppStateAndValidators(false, nil, nil)
	if err != nil {
		return nil, 0, err
	}
	var gs map[string]json.RawMessage
	if err := json.Unmarshal(exp.AppState, &gs); err != nil {
		return nil, 0, err
	}
	return gs, exp.Height, nil
}

func (c *Chain) header() tmproto.Header {
	return tmproto.Header{
		ChainID: c.ChainID, Height: c.Height, Time: c.Time,
		AppHash: c.App.LastCommitID().Hash, ValidatorsHash: c.ValHash, NextValidatorsHash: c.ValHash,
	}
}

func (c *Chain) beginBlock(dt time.Duration) {
	c.Height = c.App.LastBlockHeight() + 1
	c.Time = c.Time.Add(dt)
	h := c.header()
	c.App.BeginBlock(abci.RequestBeginBlock{Header: h})
	c.Ctx = c.App.BaseApp.NewContext(false, h)
	c.InBlock = true
}

// EndBlockOnly runs EndBlock+Commit of the open block.
func (c *Chain) EndBlockOnly() {
	c.App.EndBlock(abci.RequestEndBlock{Height: c.Height})
	c.App.Commit()
	c.InBlock = false
}

// NextBlock ends and commits the current block and begins the next one dt later.
func (c *Chain) NextBlock(dt time.Duration) {
	if c.InBlock {
		c.EndBlockOnly()
	}
	c.beginBlock(dt)
}

// NextBlockRecover is NextBlock but converts a panic in any hook to an error.
func (c *Chain) NextBlockRecover(dt time.Duration) (err error) {
	defer func() {
		if r := recover(); r != nil {
			err = fmt.Errorf("panic in block processing at height %d: %v", c.Height, r)
		}
	}()
	c.NextBlock(dt)
	return nil
}

// Fund mints coins through the mint module and gives them to addr, recording
// them as harness supply.
func (c *Chain) Fund(addr sdk.AccAddress, coins sdk.Coins) {
	if err := c.App.BankKeeper.MintCoins(c.Ctx, minttypes.ModuleName, coins); err != nil {
		panic(err)
	}
	if err := c.App.BankKeeper.SendCoinsFromModuleToAccount(c.Ctx, minttypes.ModuleName, addr, coins); err != nil {
		panic(err)
	}
	c.Minted = c.Minted.Add(coins...)
}

// FundModule mints coins to a module account (unsolicited / reserve funding).
func (c *Chain) FundModule(module string, coins sdk.Coins) {
	if err := c.App.BankKeeper.MintCoins(c.Ctx, minttypes.ModuleName, coins); err != nil {
		panic(err)
	}
	if err := c.App.BankKeeper.SendCoinsFromModuleToModule(c.Ctx, minttypes.ModuleName, module, coins); err != nil {
		panic(err)
	}
	c.Minted = c.Minted.Add(coins...)
}

// Bal returns the balance of addr in denom.
func (c *Chain) Bal(addr sdk.AccAddress, denom string) sdk.Int {
	return c.App.BankKeeper.GetBalance(c.Ctx, addr, denom).Amount
}

// ModBal returns the balance of a module account.
func (c *Chain) ModBal(module, denom string) sdk.Int {
	return c.Bal(authtypes.NewModuleAddress(module), denom)
}

// Supply of a denom.
func (c *Chain) Supply(denom string) sdk.Int {
	return c.App.BankKeeper.GetSupply(c.Ctx, denom).Amount
}

// Deliver routes one message the way baseapp.runMsgs does: ValidateBasic,
// handler on a cache context, written back only on success. A panic inside
// the handler is recovered (as runTx does) and reported as an error.
func (c *Chain) Deliver(msg sdk.Msg) (res *sdk.Result, err error) {
	if c.TxMode {
		return c.deliverAsTx(msg)
	}
	if err := msg.ValidateBasic(); err != nil {
		return nil, err
	}
	h := c.App.MsgServiceRouter().Handler(msg)
	if h == nil {
		return nil, fmt.Errorf("no handler for %T", msg)
	}
	cctx, write := c.Ctx.CacheContext()
	defer func() {
		if r := recover(); r != nil {
			err = fmt.Errorf("panic in handler: %v", r)
			res = nil
			if c.HandlerPanics == nil {
				c.HandlerPanics = map[string]int{}
			}
			c.HandlerPanics[fmt.Sprintf("%T: %.70v", msg, r)]++
		}
	}()
	res, err = h(cctx, msg)
	if err != nil {
		return nil, err
	}
	write()
	return res, nil
}

// EndBlockObserve ends and commits the open block and points c.Ctx at the
// committed state (check-state context) so that the harness can observe what
// EndBlock did before the next BeginBlock cleans it up. Follow with NextBlock.
func (c *Chain) EndBlockObserve() {
	if c.InBlock {
		c.EndBlockOnly()
	}
	c.Ctx = c.App.BaseApp.NewContext(true, c.header())
}

// EndBlockObserveRecover is EndBlockObserve with panics turned into an error.
func (c *Chain) EndBlockObserveRecover() (err error) {
	defer func() {
		if r := recover(); r != nil {
			err = fmt.Errorf("panic in end-block processing at height %d: %v", c.Height, r)
		}
	}()
	c.EndBlockObserve()
	return nil
}

func (c *Chain) deliverAsTx(msg sdk.Msg) (*sdk.Result, error) {
	signers := msg.GetSigners()
	var acc *Account
	for i := range c.Accs {
		if len(signers) > 0 && c.Accs[i].Addr.Equals(signers[0]) {
			acc = &c.Accs[i]
		}
	}
	if acc == nil {
		return nil, fmt.Errorf("no key for signer of %T", msg)
	}
	resp, err := c.DeliverTx(*acc, msg)
	if err != nil {
		c.TxTrace = append(c.TxTrace, "build-error:"+err.Error())
		return nil, err
	}
	ev := ""
	for _, e := range resp.Events {
		ev += e.Type + "{"
		for _, a := range e.Attributes {
			ev += a.Key + "=" + a.Value + ","
		}
		ev += "}"
	}
	// the free-text log is not part of the result hash of the consensus engine (and for a
	// recovered panic it carries a stack trace with addresses); everything else is recorded
	c.TxTrace = append(c.TxTrace, fmt.Sprintf("code=%d codespace=%s gas=%d/%d events=%s data=%x", resp.Code, resp.Codespace, resp.GasUsed, resp.GasWanted, ev, resp.Data))
	// the deliver-state context was replaced by nothing: c.Ctx still reads the same multistore
	if resp.Code != 0 {
		return nil, fmt.Errorf("tx failed: code %d: %s", resp.Code, resp.Log)
	}
	return &sdk.Result{}, nil
}

// The production binary sets the "comdex" bech32 prefixes before anything else
// (cmd/comdex/main.go); the contract-sender guards compare bech32 strings, so
// the harness must run under the same configuration.
func init() { chain.SetAccountAddressPrefixes() }

// HooksOnBranch runs the end-block hooks of the open block and the begin-block
// hooks of the next block (dt later, at height `height` when non-zero) on a
// throw-away branch of the current state. prep may modify the branch first;
// meter replaces the context's gas meter (every store access of the hooks
// consumes gas on it). A panic escaping the hooks is returned as an error.
func (c *Chain) HooksOnBranch(dt time.Duration, height int64, meter sdk.GasMeter, prep func()) (ctx sdk.Context, err error) {
	save := c.Ctx
	cctx, _ := c.Ctx.CacheContext()
	c.Ctx = cctx
	defer func() { c.Ctx = save }()
	if prep != nil {
		prep()
	}
	ctx = cctx
	if meter != nil {
		ctx = ctx.WithGasMeter(meter)
	}
	defer func() {
		if r := recover(); r != nil {
			err = fmt.Errorf("panic escaped the block hooks: %v", r)
		}
	}()
	c.App.EndBlocker(ctx, abci.RequestEndBlock{Height: c.Height})
	h := c.header()
	h.Height = c.Height + 1
	if height != 0 {
		h.Height = height
	}
	h.Time = c.Time.Add(dt)
	ctx = ctx.WithBlockHeader(h).WithBlockHeight(h.Height)
	c.App.BeginBlocker(ctx, abci.RequestBeginBlock{Header: h})
	return ctx, nil
}
