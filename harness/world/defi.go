package world

import (
	"fmt"
	"math/big"
	"sort"

	sdk "github.com/cosmos/cosmos-sdk/types"

	"github.com/comdex-official/comdex/app/wasm/bindings"
	assettypes "github.com/comdex-official/comdex/x/asset/types"
	markettypes "github.com/comdex-official/comdex/x/market/types"
)

// Pow10 returns 10^n as sdk.Int.
func Pow10(n int) sdk.Int {
	return sdk.NewIntFromBigInt(new(big.Int).Exp(big.NewInt(10), big.NewInt(int64(n)), nil))
}

// AddApp registers an app and returns its id.
func (c *Chain) AddApp(name string) uint64 {
	short := name
	if len(short) > 5 {
		short = short[:5]
	}
	err := c.App.AssetKeeper.AddAppRecords(c.Ctx, assettypes.AppData{Name: name, ShortName: short, MinGovDeposit: sdk.NewInt(0), GovTimeInSeconds: 0, GenesisToken: []assettypes.MintGenesisToken{}})
	if err != nil {
		panic(fmt.Errorf("AddApp %s: %w", name, err))
	}
	apps, _ := c.App.AssetKeeper.GetApps(c.Ctx)
	for _, a := range apps {
		if a.Name == name {
			return a.Id
		}
	}
	panic("app not found after creation")
}

// AddAppWithGenesisToken registers an app whose genesis-minting token list contains assetID.
func (c *Chain) AddAppWithGenesisToken(name string, assetID uint64, recipient string) uint64 {
	zero := sdk.ZeroInt()
	err := c.App.AssetKeeper.AddAppRecords(c.Ctx, assettypes.AppData{Name: name, ShortName: name, MinGovDeposit: sdk.NewInt(0), GovTimeInSeconds: 0,
		GenesisToken: []assettypes.MintGenesisToken{{AssetId: assetID, GenesisSupply: zero, IsGovToken: false, Recipient: recipient}}})
	if err != nil {
		panic(fmt.Errorf("AddApp %s: %w", name, err))
	}
	apps, _ := c.App.AssetKeeper.GetApps(c.Ctx)
	for _, a := range apps {
		if a.Name == name {
			return a.Id
		}
	}
	panic("app not found after creation")
}

// AddAsset registers an asset (decimals = 10^decExp) and sets its price.
func (c *Chain) AddAsset(name, denom string, decExp int, price uint64, oracle bool) uint64 {
	err := c.App.AssetKeeper.AddAssetRecords(c.Ctx, assettypes.Asset{Name: name, Denom: denom, Decimals: Pow10(decExp), IsOnChain: true, IsOraclePriceRequired: oracle, IsCdpMintable: true})
	if err != nil {
		panic(fmt.Errorf("AddAsset %s: %w", name, err))
	}
	var id uint64
	for _, a := range c.App.AssetKeeper.GetAssets(c.Ctx) {
		if a.Denom == denom {
			id = a.Id
		}
	}
	if id == 0 {
		panic("asset not found after creation")
	}
	c.SetPrice(id, price, true)
	return id
}

// SetPrice writes the time-weighted price record the way the repository's tests do.
func (c *Chain) SetPrice(assetID uint64, price uint64, active bool) {
	c.App.MarketKeeper.SetTwa(c.Ctx, markettypes.TimeWeightedAverage{AssetID: assetID, ScriptID: 12, Twa: price, CurrentIndex: 0, IsPriceActive: active, PriceValue: []uint64{price}, DiscardedHeightDiff: -1})
}

// AddPair registers an asset pair and returns its id.
func (c *Chain) AddPair(in, out uint64) uint64 {
	if err := c.App.AssetKeeper.AddPairsRecords(c.Ctx, assettypes.Pair{AssetIn: in, AssetOut: out}); err != nil {
		panic(fmt.Errorf("AddPair: %w", err))
	}
	var id uint64
	for _, p := range c.App.AssetKeeper.GetPairs(c.Ctx) {
		if p.AssetIn == in && p.AssetOut == out {
			id = p.Id
		}
	}
	if id == 0 {
		panic("pair not found after creation")
	}
	return id
}

// AddProduct registers an extended pair vault (a CDP product) and returns its id.
func (c *Chain) AddProduct(m bindings.MsgAddExtendedPairsVault) uint64 {
	if err := c.App.AssetKeeper.WasmAddExtendedPairsVaultRecords(c.Ctx, &m); err != nil {
		panic(fmt.Errorf("AddProduct %s: %w", m.PairName, err))
	}
	pvs, _ := c.App.AssetKeeper.GetPairsVaults(c.Ctx)
	for _, p := range pvs {
		if p.PairName == m.PairName && p.AppId == m.AppID {
			return p.Id
		}
	}
	panic("product not found after creation")
}

// PrepareDefi puts the chain into the state the DeFi modules expect in
// production: every module account exists (so that a plain transfer to a
// module address cannot create a base account in its place) and the band
// oracle validation flag is set (otherwise the market BeginBlocker marks every
// price inactive in every block).
func (c *Chain) PrepareDefi() {
	var names []string
	for name := range c.App.ModuleAccountsPermissions() {
		names = append(names, name)
	}
	sort.Strings(names) // account numbers are assigned in creation order
	for _, name := range names {
		c.App.AccountKeeper.GetModuleAccount(c.Ctx, name)
	}
	c.App.BandoracleKeeper.SetOracleValidationResult(c.Ctx, true)
}
