package world

import (
	"fmt"

	abci "github.com/cometbft/cometbft/abci/types"
	"github.com/cosmos/cosmos-sdk/client"
	"github.com/cosmos/cosmos-sdk/client/tx"
	sdk "github.com/cosmos/cosmos-sdk/types"
	"github.com/cosmos/cosmos-sdk/types/tx/signing"
	authsigning "github.com/cosmos/cosmos-sdk/x/auth/signing"

	chain "github.com/comdex-official/comdex/app"
)

var txCfg client.TxConfig

func txConfig() client.TxConfig {
	if txCfg == nil {
		txCfg = chain.MakeEncodingConfig().TxConfig
	}
	return txCfg
}

// BuildTx signs msgs with the account's key (SIGN_MODE_DIRECT, zero fee, fixed memo).
func (c *Chain) BuildTx(signer Account, msgs ...sdk.Msg) ([]byte, error) {
	cfg := txConfig()
	acc := c.App.AccountKeeper.GetAccount(c.Ctx, signer.Addr)
	if acc == nil {
		return nil, fmt.Errorf("signer account %s does not exist", signer.Addr)
	}
	b := cfg.NewTxBuilder()
	if err := b.SetMsgs(msgs...); err != nil {
		return nil, err
	}
	b.SetGasLimit(200000000)
	b.SetFeeAmount(sdk.NewCoins())
	b.SetMemo("verif")
	sigV2 := signing.SignatureV2{PubKey: signer.Priv.PubKey(), Data: &signing.SingleSignatureData{SignMode: cfg.SignModeHandler().DefaultMode()}, Sequence: acc.GetSequence()}
	if err := b.SetSignatures(sigV2); err != nil {
		return nil, err
	}
	sd := authsigning.SignerData{ChainID: c.ChainID, AccountNumber: acc.GetAccountNumber(), Sequence: acc.GetSequence()}
	sig, err := tx.SignWithPrivKey(cfg.SignModeHandler().DefaultMode(), sd, b, signer.Priv, cfg, acc.GetSequence())
	if err != nil {
		return nil, err
	}
	if err := b.SetSignatures(sig); err != nil {
		return nil, err
	}
	return cfg.TxEncoder()(b.GetTx())
}

// DeliverTx signs and delivers one transaction through the application's real
// DeliverTx (ante handler, message routing, atomic commit of the tx).
func (c *Chain) DeliverTx(signer Account, msgs ...sdk.Msg) (abci.ResponseDeliverTx, error) {
	bz, err := c.BuildTx(signer, msgs...)
	if err != nil {
		return abci.ResponseDeliverTx{}, err
	}
	return c.App.DeliverTx(abci.RequestDeliverTx{Tx: bz}), nil
}
