// Package rec collects what a check actually explored (evaluations, distinct
// non-trivial cases, class histogram, samples) and the failures it saw, and
// writes them to the file named by VERIF_OUT for the driver to merge.
package rec

import (
	"crypto/sha256"
	"encoding/hex"
	"encoding/json"
	"fmt"
	"os"
	"regexp"
	"sort"
	"sync"
)

// Failure is one failed assertion with its stable signature.
type Failure struct {
	Property  string      `json:"property"`
	Sub       string      `json:"sub"`
	Assertion string      `json:"assertion"`
	Context   string      `json:"context"`
	Message   string      `json:"message"`
	Case      interface{} `json:"case,omitempty"`
}

// TB is the part of testing.TB / rapid.T that rec needs.
type TB interface {
	Fatalf(format string, args ...interface{})
	Helper()
}

type Rec struct {
	// FailSub, when set, is the sub-check recorded in failure records instead of Sub (a replayed case keeps
	// the name of the sub-check that generated it, so that its own record can be replayed again)
	FailSub    string
	mu         sync.Mutex
	Property   string
	Sub        string
	evals      int
	nontrivial map[string]struct{}
	classes    map[string]int
	samples    []interface{}
	maxSamples int
	last       *Failure
	known      []Failure
	excluded   int
	exhaustive bool
	notes      map[string]interface{}
	knownSeen  map[string]bool
}

func New(property, sub string) *Rec {
	return &Rec{Property: property, Sub: sub, nontrivial: map[string]struct{}{}, classes: map[string]int{}, maxSamples: 4, notes: map[string]interface{}{}}
}

func (r *Rec) Eval() { r.mu.Lock(); r.evals++; r.mu.Unlock() }

// EvalN adds n evaluations.
func (r *Rec) EvalN(n int) { r.mu.Lock(); r.evals += n; r.mu.Unlock() }

func (r *Rec) Class(name string) { r.mu.Lock(); r.classes[name]++; r.mu.Unlock() }

func (r *Rec) ClassN(name string, n int) { r.mu.Lock(); r.classes[name] += n; r.mu.Unlock() }

func (r *Rec) Excluded() { r.mu.Lock(); r.excluded++; r.mu.Unlock() }

func (r *Rec) SetExhaustive(b bool) { r.mu.Lock(); r.exhaustive = b; r.mu.Unlock() }

func (r *Rec) Note(k string, v interface{}) { r.mu.Lock(); r.notes[k] = v; r.mu.Unlock() }

// Sig returns a short stable signature of v (canonical JSON).
func Sig(v interface{}) string {
	b, err := json.Marshal(v)
	if err != nil {
		b = []byte(fmt.Sprintf("%#v", v))
	}
	h := sha256.Sum256(b)
	return hex.EncodeToString(h[:7])
}

// NonTrivial records a non-trivial case; v is its canonical description and
// is kept as a sample while there is room.
func (r *Rec) NonTrivial(v interface{}) {
	s := Sig(v)
	r.mu.Lock()
	if _, ok := r.nontrivial[s]; !ok {
		r.nontrivial[s] = struct{}{}
		if len(r.samples) < r.maxSamples {
			r.samples = append(r.samples, v)
		}
	}
	r.mu.Unlock()
}

// NonTrivialSig is NonTrivial with a precomputed signature and lazy sample.
func (r *Rec) NonTrivialSig(sig string, sample func() interface{}) {
	r.mu.Lock()
	if _, ok := r.nontrivial[sig]; !ok {
		r.nontrivial[sig] = struct{}{}
		if len(r.samples) < r.maxSamples && sample != nil {
			r.samples = append(r.samples, sample())
		}
	}
	r.mu.Unlock()
}

// KnownEntry is one entry of /verif/known_findings.json.
type KnownEntry struct {
	ID        string `json:"id"`
	Property  string `json:"property"`
	Assertion string `json:"assertion"` // regular expression, anchored
	Context   string `json:"context"`   // regular expression, anchored
	What      string `json:"what"`
}

var (
	knownOnce sync.Once
	knownList []KnownEntry
)

func loadKnown() {
	path := os.Getenv("VERIF_KNOWN")
	if path == "" {
		return
	}
	b, err := os.ReadFile(path)
	if err != nil {
		return
	}
	var f struct {
		Findings []KnownEntry `json:"findings"`
	}
	if json.Unmarshal(b, &f) == nil {
		knownList = f.Findings
	}
}

// MatchKnown returns the id of the known finding matching the signature.
func MatchKnown(property, assertion, context string) (string, bool) {
	knownOnce.Do(loadKnown)
	for _, k := range knownList {
		if k.Property != property {
			continue
		}
		if ok, _ := regexp.MatchString("^(?:"+k.Assertion+")$", assertion); !ok {
			continue
		}
		if ok, _ := regexp.MatchString("^(?:"+k.Context+")$", context); ok {
			return k.ID, true
		}
	}
	return "", false
}

type knownAbort struct{}

// Guard runs one generated case; a case that ran into a listed known finding
// is abandoned quietly (the finding is recorded) so that the search continues.
func (r *Rec) Guard(f func()) {
	defer func() {
		if x := recover(); x != nil {
			if _, ok := x.(knownAbort); ok {
				return
			}
			panic(x)
		}
	}()
	f()
}

// Fail records the failure (last one wins: rapid re-runs the shrunk case
// last) and aborts the case. A failure whose signature is listed in
// known_findings.json is recorded as known and abandons the case without
// failing the run (only inside Guard).
func (r *Rec) Fail(t TB, assertion, context string, c interface{}, format string, args ...interface{}) {
	t.Helper()
	if id, ok := MatchKnown(r.Property, assertion, context); ok {
		r.mu.Lock()
		r.classes["known:"+id]++
		if r.knownSeen == nil {
			r.knownSeen = map[string]bool{}
		}
		first := !r.knownSeen[id]
		r.knownSeen[id] = true
		r.mu.Unlock()
		if first {
			r.Known(assertion, context, fmt.Sprintf(format, args...))
		}
		panic(knownAbort{})
	}
	sub := r.Sub
	if r.FailSub != "" {
		sub = r.FailSub
	}
	f := &Failure{Property: r.Property, Sub: sub, Assertion: assertion, Context: context, Message: fmt.Sprintf(format, args...), Case: c}
	r.mu.Lock()
	r.last = f
	r.mu.Unlock()
	r.flush()
	t.Fatalf("[%s ctx=%s] %s", assertion, context, f.Message)
}

// FailSoft is Fail for checks that examine many independent items in one case
// (e.g. every differing store key of a genesis round trip): a failure listed in
// known_findings.json is recorded and the case CONTINUES (returns true); any
// other failure is fatal as with Fail.
func (r *Rec) FailSoft(t TB, assertion, context string, c interface{}, format string, args ...interface{}) bool {
	t.Helper()
	if id, ok := MatchKnown(r.Property, assertion, context); ok {
		r.mu.Lock()
		r.classes["known:"+id]++
		if r.knownSeen == nil {
			r.knownSeen = map[string]bool{}
		}
		first := !r.knownSeen[id]
		r.knownSeen[id] = true
		r.mu.Unlock()
		if first {
			r.Known(assertion, context, fmt.Sprintf(format, args...))
		}
		return true
	}
	r.Fail(t, assertion, context, c, format, args...)
	return false
}

// Known records a failure observed by a witness of a known finding.
func (r *Rec) Known(assertion, context, msg string) {
	r.mu.Lock()
	r.known = append(r.known, Failure{Property: r.Property, Assertion: assertion, Context: context, Message: msg})
	r.mu.Unlock()
}

type out struct {
	Property   string                 `json:"property"`
	Sub        string                 `json:"sub"`
	Evals      int                    `json:"evaluations"`
	NonTrivial []string               `json:"nontrivial"`
	Classes    map[string]int         `json:"classes"`
	Samples    []interface{}          `json:"samples"`
	Failure    *Failure               `json:"failure,omitempty"`
	Known      []Failure              `json:"known,omitempty"`
	Excluded   int                    `json:"excluded_by_construction"`
	Exhaustive bool                   `json:"exhaustive"`
	Notes      map[string]interface{} `json:"notes,omitempty"`
}

func (r *Rec) flush() {
	path := os.Getenv("VERIF_OUT")
	if path == "" {
		return
	}
	r.mu.Lock()
	o := out{Property: r.Property, Sub: r.Sub, Evals: r.evals, Classes: r.classes, Samples: r.samples, Failure: r.last, Known: r.known, Excluded: r.excluded, Exhaustive: r.exhaustive, Notes: r.notes}
	for k := range r.nontrivial {
		o.NonTrivial = append(o.NonTrivial, k)
	}
	r.mu.Unlock()
	sort.Strings(o.NonTrivial)
	b, _ := json.Marshal(o)
	_ = os.WriteFile(path+"."+r.Sub+".json", b, 0o644)
}

// Flush writes the collected data; call it from t.Cleanup.
func (r *Rec) Flush() { r.flush() }
