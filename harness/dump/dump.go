// Package dump produces an ordered dump and hash of every KV store of an
// application (as seen through a given context) and a per-store / per-prefix
// diff of two dumps.
package dump

import (
	"bytes"
	"crypto/sha256"
	"encoding/hex"
	"fmt"
	"sort"

	"github.com/cosmos/cosmos-sdk/store/rootmulti"
	storetypes "github.com/cosmos/cosmos-sdk/store/types"
	sdk "github.com/cosmos/cosmos-sdk/types"

	chain "github.com/comdex-official/comdex/app"
)

// KV is one record of one store.
type KV struct {
	Store string
	Key   []byte
	Value []byte
}

// State is an ordered dump of all persistent KV stores.
type State []KV

// Take dumps every IAVL-backed store visible through ctx (deliver-state or
// committed-state context), in store-name then key order.
func Take(app *chain.App, ctx sdk.Context) State {
	rs := app.CommitMultiStore().(*rootmulti.Store)
	keys := rs.StoreKeysByName()
	names := make([]string, 0, len(keys))
	for n, k := range keys {
		if _, ok := k.(*storetypes.KVStoreKey); ok {
			names = append(names, n)
		}
	}
	sort.Strings(names)
	var out State
	for _, n := range names {
		st := ctx.KVStore(keys[n])
		it := st.Iterator(nil, nil)
		for ; it.Valid(); it.Next() {
			out = append(out, KV{Store: n, Key: append([]byte{}, it.Key()...), Value: append([]byte{}, it.Value()...)})
		}
		it.Close()
	}
	return out
}

// Hash of the whole dump.
func (s State) Hash() string {
	h := sha256.New()
	for _, kv := range s {
		fmt.Fprintf(h, "%s/%d/%d/", kv.Store, len(kv.Key), len(kv.Value))
		h.Write(kv.Key)
		h.Write(kv.Value)
	}
	return hex.EncodeToString(h.Sum(nil))
}

// PerStoreHash returns one hash per store.
func (s State) PerStoreHash() map[string]string {
	hs := map[string]interface{ Sum([]byte) []byte }{}
	_ = hs
	out := map[string]string{}
	cur := ""
	h := sha256.New()
	flush := func() {
		if cur != "" {
			out[cur] = hex.EncodeToString(h.Sum(nil))
		}
	}
	for _, kv := range s {
		if kv.Store != cur {
			flush()
			cur = kv.Store
			h = sha256.New()
		}
		fmt.Fprintf(h, "%d/%d/", len(kv.Key), len(kv.Value))
		h.Write(kv.Key)
		h.Write(kv.Value)
	}
	flush()
	return out
}

// Change is one differing key.
type Change struct {
	Store string
	Key   []byte
	A, B  []byte // nil = absent
}

func (c Change) String() string {
	k := hex.EncodeToString(c.Key)
	if len(k) > 64 {
		k = k[:64] + "…"
	}
	switch {
	case c.A == nil:
		return fmt.Sprintf("%s: +%s (%d bytes)", c.Store, k, len(c.B))
	case c.B == nil:
		return fmt.Sprintf("%s: -%s (%d bytes)", c.Store, k, len(c.A))
	default:
		return fmt.Sprintf("%s: ~%s (%d -> %d bytes)", c.Store, k, len(c.A), len(c.B))
	}
}

// Diff lists the keys whose value differs between a and b.
func Diff(a, b State) []Change {
	var out []Change
	i, j := 0, 0
	cmp := func(x, y KV) int {
		if x.Store != y.Store {
			if x.Store < y.Store {
				return -1
			}
			return 1
		}
		return bytes.Compare(x.Key, y.Key)
	}
	for i < len(a) || j < len(b) {
		switch {
		case i >= len(a):
			out = append(out, Change{Store: b[j].Store, Key: b[j].Key, B: b[j].Value})
			j++
		case j >= len(b):
			out = append(out, Change{Store: a[i].Store, Key: a[i].Key, A: a[i].Value})
			i++
		default:
			switch c := cmp(a[i], b[j]); {
			case c < 0:
				out = append(out, Change{Store: a[i].Store, Key: a[i].Key, A: a[i].Value})
				i++
			case c > 0:
				out = append(out, Change{Store: b[j].Store, Key: b[j].Key, B: b[j].Value})
				j++
			default:
				if !bytes.Equal(a[i].Value, b[j].Value) {
					out = append(out, Change{Store: a[i].Store, Key: a[i].Key, A: a[i].Value, B: b[j].Value})
				}
				i++
				j++
			}
		}
	}
	return out
}

// Summary renders the first n changes.
func Summary(cs []Change, n int) string {
	s := ""
	for i, c := range cs {
		if i >= n {
			s += fmt.Sprintf("… and %d more", len(cs)-n)
			break
		}
		s += c.String() + "; "
	}
	return s
}
