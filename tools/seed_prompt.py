#!/usr/bin/env python3
"""Prints the prompt given to a fresh sub-agent that is asked to break one
property in its own scratch worktree (it sees nothing from /verif)."""
import json, sys
pid, wt = sys.argv[1], sys.argv[2]
p = [json.loads(l) for l in open('/verif/properties.jsonl') if json.loads(l)['id'] == pid][0]
print(f"""You are helping to evaluate a verification effort by playing the adversary. The project is comdex-official/comdex, a Cosmos-SDK application chain in Go with DeFi modules (CDP vaults, lending, AMM/order-book liquidity, liquidation, dutch/surplus/debt auctions). You have your own scratch git worktree of it at {wt} (work ONLY there; never touch /repo or /verif, and do not read anything under /verif).

Here is a semantic property the code base is supposed to satisfy:

  Title: {p['title']}
  Statement: {p['statement']}
  It must hold: {p['quantifier']['text']}
  Code it is anchored in: {', '.join(p['anchors']['files'])}

Your job: produce TWO independent, realistic source changes ("mutations") to the non-test Go code of comdex, each of which BREAKS this property, while the code still compiles and the existing test suite still passes. Realistic means: the kind of slip a developer could make in a refactor or feature change (wrong rounding direction, off-by-one at a boundary, a missing update of one of two paired records, swapped same-typed arguments, a guard dropped on one path, stale copy used after an update, a wrong key, order of operations, etc.), not a blatant sabotage. Prefer changes that need something specific to manifest — a particular multi-step sequence of operations, an unusual or boundary input, a particular configuration (e.g. asset decimals that differ, app id != pair id, a non-default batch size), a fault at a particular point, or two cooperating sites that each look fine alone — NOT ones that ordinary use would expose at once and not ones the existing tests catch. The two mutations should differ in mechanism and location.

For each mutation deliver, in the directory {wt}/SEED/<n>/ (n = 1, 2):
  * patch.diff — `git diff` of the change to non-test source files only (apply-able with `git apply` on a clean checkout of the worktree's HEAD);
  * a demonstration: a Go test file (put it in a _test.go file inside the relevant package directory of the worktree, and copy it to SEED/<n>/ as well, noting in meta.json the path where it has to live) or a small program that FAILS with the change applied and PASSES without it, showing the property violated through the public behaviour (keeper/msg-server calls, balances, query results), not by asserting on the mutated line;
  * meta.json — {{"property": "{pid}", "summary": "...what was changed...", "needs": "...what specific sequence/input/configuration/fault is needed for it to manifest...", "demo_path": "...", "demo_cmd": "...", "tests_run": "...which existing test packages you ran with the change and their result..."}}.

Rules and environment:
  * No network. In every shell call first run: export GOFLAGS=-mod=mod GOPROXY=off GOSUMDB=off GOTOOLCHAIN=local . Go 1.23 is the toolchain; all dependencies are in the module cache. Do not modify go.mod/go.sum (if `go` rewrites go.sum, `git checkout go.sum`).
  * The existing tests must still pass with each mutation applied (without your demonstration file): at the very least run `go build ./...` and `go test -vet=off -count=1` for every package under x/ and app/ whose code you changed or that imports it closely (e.g. the module's keeper package and its callers such as x/liquidationsV2, x/auctionsV2, x/rewards where relevant). If an existing test fails because of your change, pick another change. Running the entire suite takes roughly 10-15 minutes (`go test -vet=off -count=1 ./...`); do run it once per final mutation if you can afford it, and say in meta.json what you ran.
  * Each mutation is developed and verified separately, starting from a clean tree (`git checkout -- .` between them; never use `git stash`: the stash is shared with other worktrees of this repository). Leave the worktree clean of source modifications at the end (only the SEED/ directory and nothing else untracked besides it; remove your demo test files from the package directories after copying them into SEED/).
  * Existing keeper tests (x/*/keeper/*_test.go) show how to set up an in-memory app (app.Setup), create apps/assets/pairs, fund accounts and call msg servers; reuse those patterns in your demonstration.
  * Do not weaken or edit existing tests. Do not touch files ending in _test.go except to add your own new demonstration file.

When done, reply with a short report: for each mutation, the file/function changed, why it breaks the property, what it needs to manifest, and confirmation that (a) demo fails with / passes without the patch, (b) which existing tests were run and pass.""")
