#!/bin/bash
# seed_run_wt.sh <seed-name> [property] : like seed_run.sh, but the seeded change is applied to a scratch
# worktree of /repo (removed afterwards) and the check is built against that worktree (VERIF_REPO_DIR), so
# /repo itself stays untouched — for use while other runs are building from /repo. Evidence and replay files
# of the run go to /tmp/seed-out/<seed-name>/ (VERIF_OUT_DIR), never to /verif.
name=$1; prop=${2:-${name%%-*}}
cd /verif
wt=/tmp/srw-$name
git -C /repo worktree remove --force $wt 2>/dev/null
git -C /repo worktree add -q --detach $wt HEAD || exit 3
trap 'git -C /repo worktree remove --force '$wt'; git -C /repo worktree prune' EXIT
git -C $wt apply /verif/seeded/$name/patch.diff || exit 3
rm -rf /tmp/seed-out/$name; mkdir -p /tmp/seed-out/$name
VERIF_REPO_DIR=$wt VERIF_OUT_DIR=/tmp/seed-out/$name ./check $prop --tier ${TIER:-quick}; rc=$?
echo "seed=$name property=$prop rc=$rc"
exit $rc
