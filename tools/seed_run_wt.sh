#!/bin/bash
# seed_run_wt.sh <seed-name> [property] : like seed_run.sh, but the seeded change is applied to a scratch
# worktree of /repo (removed afterwards) and the check is built against that worktree (VERIF_REPO_DIR), so
# /repo itself stays untouched — for use while other runs are building from /repo.
name=$1; prop=${2:-${name%%-*}}
cd /verif
wt=/tmp/srw-$name
git -C /repo worktree remove --force $wt 2>/dev/null
git -C /repo worktree add -q --detach $wt HEAD || exit 3
trap 'git -C /repo worktree remove --force '$wt'; git -C /repo worktree prune' EXIT
git -C $wt apply /verif/seeded/$name/patch.diff || exit 3
before=$(ls replays | sort)
cp evidence/$prop.json /tmp/evidence-$prop.keep-$name 2>/dev/null
VERIF_REPO_DIR=$wt ./check $prop --tier ${TIER:-quick}; rc=$?
mkdir -p /tmp/seed-evidence; cp evidence/$prop.json /tmp/seed-evidence/$name.json 2>/dev/null
if [ -f /tmp/evidence-$prop.keep-$name ]; then mv /tmp/evidence-$prop.keep-$name evidence/$prop.json; fi
for f in $(ls replays | sort); do case "$before" in *"$f"*) ;; *) mkdir -p /tmp/seed-replays/$name; mv replays/$f /tmp/seed-replays/$name/ ;; esac; done
echo "seed=$name property=$prop rc=$rc"
exit $rc
