#!/bin/bash
# run_all.sh <VERIF_SEED> [tier] : every claimed check once, one line per property
seed=${1:-1}; tier=${2:-quick}
cd /verif
for id in $(python3 -c "import json;print(' '.join(sorted(json.load(open('checks.json')))))"); do
  out=$(VERIF_SEED=$seed ./check $id --tier $tier 2>&1); rc=$?
  echo "$id seed=$seed tier=$tier rc=$rc $(echo "$out" | grep -a 'tier=' | tail -1 | sed 's/.*evaluations/evaluations/')"
  echo "$out" | grep -a "VIOLATION\|INCONCLUSIVE\|failed assertion" | cut -c1-300
done
