#!/usr/bin/env python3
"""make_witness.py <finding-id> : runs the property's quick check with that one finding taken off
the known list, so that the driver saves a replay of it, and stores the replay as the finding's
witness under replays/known/. Development aid; never used by the registered commands."""
import json, os, subprocess, sys, glob, shutil, re
fid = sys.argv[1]
k = json.load(open('/verif/known_findings.json'))
f = [x for x in k['findings'] if x['id'] == fid][0]
k2 = dict(k); k2['findings'] = [x for x in k['findings'] if x['id'] != fid]
tmp = '/tmp/known-without-%s.json' % fid
json.dump(k2, open(tmp, 'w'))
before = set(os.listdir('/verif/replays'))
keep = '/tmp/evidence-keep-%s.json' % f['property']
ev = '/verif/evidence/%s.json' % f['property']
if os.path.exists(ev): shutil.copy(ev, keep)
env = dict(os.environ, VERIF_KNOWN_FILE=tmp)
out = subprocess.run(['/verif/check', f['property']], env=env, capture_output=True, text=True).stdout
new = sorted(set(os.listdir('/verif/replays')) - before)
found = None
for n in new:
    d = json.load(open('/verif/replays/' + n))
    if re.fullmatch(f['assertion'], d.get('assertion', '')) and re.fullmatch(f['context'], d.get('context', '')) and found is None:
        found = n
        shutil.move('/verif/replays/' + n, '/verif/replays/known/%s.json' % fid)
    else:
        os.remove('/verif/replays/' + n)
if os.path.exists(keep): shutil.move(keep, ev)
print(fid, 'witness:', found)
