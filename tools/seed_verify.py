#!/usr/bin/env python3
"""seed_verify.py <SEED/n dir> <name>: confirm a sub-agent's seeded change in a
fresh scratch worktree (demo passes without / fails with the patch, the whole
existing suite passes with the patch) and store it under /verif/seeded/<name>/."""
import json, os, re, shutil, subprocess, sys, glob, time
src, name = sys.argv[1].rstrip('/'), sys.argv[2]
wt = "/tmp/sv-" + name
env = dict(os.environ, GOFLAGS="-mod=mod", GOPROXY="off", GOSUMDB="off", GOTOOLCHAIN="local", DBUS_SESSION_BUS_ADDRESS="unix:path=/nonexistent-verif-no-session-bus")
def sh(cmd, cwd=wt, check=False):
    p = subprocess.run(cmd, shell=True, cwd=cwd, env=env, stdout=subprocess.PIPE, stderr=subprocess.STDOUT, text=True)
    if check and p.returncode != 0:
        print(p.stdout[-3000:]); raise SystemExit("command failed: " + cmd)
    return p
meta = json.load(open(src + "/meta.json"))
subprocess.run(["git", "-C", "/repo", "worktree", "remove", "--force", wt], stdout=subprocess.DEVNULL, stderr=subprocess.DEVNULL)
sh("git -C /repo worktree add -q --detach %s HEAD" % wt, cwd="/", check=True)
rec = {"verified_at": time.strftime("%Y-%m-%d %H:%M:%S"), "base_commit": sh("git rev-parse --short HEAD").stdout.strip()}
try:
    demos = glob.glob(src + "/*_test.go")
    target = meta["demo_path"].split()[0]
    assert len(demos) == 1, demos
    shutil.copy(demos[0], os.path.join(wt, target))
    cmds = [c.strip()[c.strip().index("go test"):] for c in re.split(r"&&|;", meta["demo_cmd"]) if "go test" in c]
    demo_cmd = cmds[-1]
    p = sh(demo_cmd); rec["demo_without_patch"] = "pass" if p.returncode == 0 else "FAIL"
    if p.returncode != 0: print(p.stdout[-2000:])
    sh("git apply %s/patch.diff" % src, check=True)
    p = sh(demo_cmd); rec["demo_with_patch"] = "fail" if p.returncode != 0 else "PASSES"
    rec["demo_failure_excerpt"] = "\n".join([l for l in p.stdout.splitlines() if "Error" in l or "FAIL" in l or "panic" in l or "expected" in l][:12])[-1500:]
    os.remove(os.path.join(wt, target))
    p = sh("go build ./... && go test -vet=off -count=1 -timeout 25m ./... 2>&1 | grep -v '^ok\\|no test files'")
    bad = [l for l in p.stdout.splitlines() if l.startswith("FAIL") or l.startswith("---") or "panic" in l]
    rec["suite_with_patch"] = "pass" if not bad else "FAIL: " + " | ".join(bad[:5])
    rec["demo_cmd_used"] = demo_cmd
    ok = rec["demo_without_patch"] == "pass" and rec["demo_with_patch"] == "fail" and rec["suite_with_patch"] == "pass"
    rec["confirmed"] = ok
    out = "/verif/seeded/" + name
    os.makedirs(out, exist_ok=True)
    shutil.copy(src + "/patch.diff", out + "/patch.diff")
    shutil.copy(demos[0], out + "/" + os.path.basename(demos[0]) + ".txt")
    meta["demo_file"] = os.path.basename(demos[0]) + ".txt (copy to the path in demo_path, dropping the .txt suffix)"
    meta["verification"] = rec
    json.dump(meta, open(out + "/meta.json", "w"), indent=1)
    print(name, json.dumps(rec, indent=1))
finally:
    subprocess.run(["git", "-C", "/repo", "worktree", "remove", "--force", wt])
