#!/bin/bash
# seed_regress.sh [parallel] : run every confirmed seeded change against the current checks (each in its own
# scratch worktree, /repo untouched) and print one line per seed: caught (rc=1) / MISSED (rc=0) / other.
par=${1:-2}
cd /verif
ls seeded | xargs -P $par -I{} bash -c 'n={}; out=$(tools/seed_run_wt.sh $n 2>&1); rc=$?; a=$(echo "$out" | grep -a "failed assertion" | head -1 | sed "s/.*failed assertion //" | cut -c1-110); case $rc in 1) echo "caught $n: $a";; 0) echo "MISSED $n";; *) echo "rc=$rc $n";; esac'
