#!/bin/bash
# seed_run.sh <seed-name> [property] : apply a seeded change to /repo, run the
# quick check of its property, and undo the change straight afterwards.
name=$1; prop=${2:-${name%%-*}}
cd /verif
if ! git -C /repo diff --quiet; then echo "/repo has uncommitted changes"; exit 3; fi
git -C /repo apply /verif/seeded/$name/patch.diff || exit 3
trap 'git -C /repo checkout -- .' EXIT
before=$(ls replays | sort)
# evidence written while a seeded change is applied describes the mutant, not the tree: keep the real one
cp evidence/$prop.json /tmp/evidence-$prop.keep 2>/dev/null
./check $prop --tier ${TIER:-quick}; rc=$?
mkdir -p /tmp/seed-evidence; cp evidence/$prop.json /tmp/seed-evidence/$name.json 2>/dev/null
if [ -f /tmp/evidence-$prop.keep ]; then mv /tmp/evidence-$prop.keep evidence/$prop.json; fi
# remove replay files this run created (they belong to the mutant, not to the tree)
for f in $(ls replays | sort); do case "$before" in *"$f"*) ;; *) mkdir -p /tmp/seed-replays/$name; mv replays/$f /tmp/seed-replays/$name/ ;; esac; done
echo "seed=$name property=$prop rc=$rc"
exit $rc
