#!/bin/bash
# seed_run.sh <seed-name> [property] : apply a seeded change to /repo, run the
# quick check of its property, and undo the change straight afterwards.
name=$1; prop=${2:-${name%%-*}}
cd /verif
if ! git -C /repo diff --quiet; then echo "/repo has uncommitted changes"; exit 3; fi
git -C /repo apply /verif/seeded/$name/patch.diff || exit 3
trap 'git -C /repo checkout -- .' EXIT
before=$(ls replays | sort)
./check $prop --tier ${TIER:-quick}; rc=$?
# remove replay files this run created (they belong to the mutant, not to the tree)
for f in $(ls replays | sort); do case "$before" in *"$f"*) ;; *) mkdir -p /tmp/seed-replays/$name; mv replays/$f /tmp/seed-replays/$name/ ;; esac; done
echo "seed=$name property=$prop rc=$rc"
exit $rc
