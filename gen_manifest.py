#!/usr/bin/env python3
"""Regenerates MANIFEST.json from checks.json (the single place where the
per-property configuration lives) and properties.jsonl."""
import json, os
ROOT = os.path.dirname(os.path.abspath(__file__))
cfg = json.load(open(os.path.join(ROOT, "checks.json")))
props = [json.loads(l)["id"] for l in open(os.path.join(ROOT, "properties.jsonl")) if l.strip()]
na = json.load(open(os.path.join(ROOT, "not_applicable.json")))
checks = []
for pid in props:
    if pid not in cfg or cfg[pid].get("disabled"):
        continue
    c = cfg[pid]
    checks.append({
        "property_id": pid,
        "quick_cmd": "./check %s --tier quick" % pid,
        "thorough_cmd": "./check %s --tier thorough" % pid,
        "evidence_file": "/verif/evidence/%s.json" % pid,
        "replay_cmd_template": "./check %s --replay {path}" % pid,
        "engine": "go-rapid-harness",
        "level_claimed": {"category": c["level"], "text": c["level_text"], "design_ref": c.get("design_ref", "DESIGN.md section 4 (%s)" % pid)},
        "level_note": c["level_note"],
        "technique": c["technique"],
    })
claimed = {c["property_id"] for c in checks}
m = {
    "version": 1,
    "setup_cmd": "cd /verif/harness && GOFLAGS=-mod=mod GOPROXY=off GOSUMDB=off GOTOOLCHAIN=local go test -tags verif -c -o /dev/null ./checks",
    "hooks": {
        "guard": "verif",
        "enable": "go build tag: the harness is compiled with `go test -tags verif` against /repo (module replace), which switches x/liquidity/amm/verif_hook_on.go and types/verif_hook_on.go in and the verif_hook_off.go twins out",
        "baseline_off_cmd": "cd /repo && GOFLAGS=-mod=mod GOPROXY=off GOSUMDB=off go test -vet=off -count=1 -timeout 25m ./...",
        "source_commits": json.load(open(os.path.join(ROOT, "hook_commits.json"))),
        "add_only": True,
    },
    "engines": [{
        "name": "go-rapid-harness", "path": "/verif/harness",
        "serves_properties": sorted(claimed),
        "kind_free_text": "Go test binary linking the real comdex application (module replace => /repo): pgregory.net/rapid v1.3.0 generators (stateful op lists, boundary-directed inputs), native go fuzz targets for pure functions in the thorough tier, exhaustive small-domain enumerations; explicit oracles (big.Rat recomputation, ledgers over bank balances vs. record sums, reference models, differential replay); sharded and merged by /verif/check",
    }],
    "checks": checks,
    "notes": "All checks: exit 0 held / 1 VIOLATION (unlisted failure) / 2 inconclusive. Known findings: /verif/known_findings.json. Seeds derive from VERIF_SEED.",
    "not_applicable": [{"property_id": p, "reason": na.get(p, "check not built yet in this session; will be claimed once its generator and oracle exist")} for p in props if p not in claimed],
}
json.dump(m, open(os.path.join(ROOT, "MANIFEST.json"), "w"), indent=1)
print("claimed", sorted(claimed), "not_applicable", [x["property_id"] for x in m["not_applicable"]])
